//! The one intrinsic nondeterminism of xot — ahash seeds — behind a seam the
//! simulator owns. ahash is built with `no-rng` (shadow manifest) and asked,
//! through its public `set_random_source`, to draw hasher seeds from a
//! thread-local splitmix stream which every run reseeds from its run seed.

use crate::rng::splitmix;
use std::cell::Cell;

thread_local! {
    static STREAM: Cell<u64> = Cell::new(0x1234_5678_9abc_def0);
    static DRAWS: Cell<u64> = Cell::new(0);
}

struct SimSource;
impl ahash::random_state::RandomSource for SimSource {
    fn gen_hasher_seed(&self) -> usize {
        DRAWS.with(|d| d.set(d.get() + 1));
        STREAM.with(|s| {
            let mut x = s.get();
            let r = splitmix(&mut x);
            s.set(x);
            r as usize
        })
    }
}

pub fn install() {
    // Err means a source was already installed (by us): fine.
    let _ = ahash::random_state::set_random_source(SimSource);
}
pub fn reseed(seed: u64) {
    STREAM.with(|s| s.set(seed));
}
pub fn get() -> u64 {
    STREAM.with(|s| s.get())
}
pub fn draws() -> u64 {
    DRAWS.with(|d| d.get())
}
