//! Operations are data. One `Op` = one public API call (or a tiny fixed
//! composite such as `attributes_mut(e).entry(k).or_insert(v)`).

use crate::model::{Kind, Lid, MapKey, Model, Nm, Pred, K};
use serde::{Deserialize, Serialize};
use xot::{Node, Xot};

#[derive(Clone, Debug, PartialEq, Eq, Serialize, Deserialize)]
pub enum ParseKind {
    Doc,
    Fragment,
    Bytes,
    DocSpan,
    FragmentSpan,
}

#[derive(Clone, Debug, PartialEq, Eq, Serialize, Deserialize)]
pub enum EntryMode {
    OrInsert,
    OrInsertWith,
    AndModifyOrInsert,
    OrDefault,
    OccupiedInsert,
    OccupiedRemove,
    Key,
}

/// one call on a view object that stays alive for the whole batch
#[derive(Clone, Debug, PartialEq, Eq, Serialize, Deserialize)]
pub enum ViewStep<K> {
    Insert(K, String),
    Remove(K),
    Clear,
    /// get / get_node / contains_key of a key
    Get(K),
}

#[derive(Clone, Debug, PartialEq, Eq, Serialize, Deserialize)]
pub enum Op {
    // creation
    NewDocument,
    NewElement { name: Nm },
    NewText { s: String },
    NewComment { s: String },
    NewPI { target: Nm, data: Option<String> },
    NewAttr { name: Nm, value: String },
    NewNs { prefix: String, uri: String },
    NewDocWithElement { n: Lid },
    Parse { text: String, kind: ParseKind },
    /// `fixed::Element::xotify` / `fixed::Document::xotify` of a generated structure that may list an
    /// attribute name or a prefix twice and text in adjacent pieces
    Xotify { e: crate::absdoc::AElem, document: bool, split: bool },
    // structure
    Append { p: Lid, c: Lid },
    Prepend { p: Lid, c: Lid },
    InsertAfter { r: Lid, c: Lid },
    InsertBefore { r: Lid, c: Lid },
    Detach { n: Lid },
    Remove { n: Lid },
    Replace { old: Lid, new: Lid },
    Wrap { n: Lid, name: Nm },
    Unwrap { n: Lid },
    CloneNode { n: Lid },
    CloneWithPrefixes { n: Lid },
    AnyAppend { p: Lid, c: Lid },
    AppendAttrNode { p: Lid, c: Lid },
    AppendNsNode { p: Lid, c: Lid },
    /// append_namespace(parent, &xmlname::CreateNamespace)
    AppendNamespace { p: Lid, prefix: String, uri: String },
    AppendText { p: Lid, s: String },
    AppendElement { p: Lid, name: Nm },
    AppendComment { p: Lid, s: String },
    AppendPI { p: Lid, target: Nm, data: Option<String> },
    // maps (element-only accessors; on a non-element they panic by documentation)
    AttrInsert { e: Lid, name: Nm, value: String },
    AttrRemove { e: Lid, name: Nm },
    AttrGetMutSet { e: Lid, name: Nm, value: String },
    AttrClear { e: Lid },
    AttrEntry { e: Lid, name: Nm, mode: EntryMode, value: String },
    SetAttribute { e: Lid, name: Nm, value: String },
    RemoveAttribute { e: Lid, name: Nm },
    NsInsert { e: Lid, prefix: String, uri: String },
    NsRemove { e: Lid, prefix: String },
    NsGetMutSet { e: Lid, prefix: String, uri: String },
    NsClear { e: Lid },
    NsEntry { e: Lid, prefix: String, mode: EntryMode, uri: String },
    SetNamespace { e: Lid, prefix: String, uri: String },
    RemoveNamespace { e: Lid, prefix: String },
    /// several updates through ONE `attributes_mut` view object: (key, Some(value)) = insert, (key, None) = remove
    AttrBatch { e: Lid, items: Vec<ViewStep<Nm>> },
    /// the same through one `namespaces_mut` view object
    NsBatch { e: Lid, items: Vec<ViewStep<String>> },
    // values
    SetElementName { e: Lid, name: Nm },
    TextSet { n: Lid, s: String },
    CommentSet { n: Lid, s: String },
    PISetData { n: Lid, data: Option<String> },
    PISetTarget { n: Lid, target: Nm },
    AttrNodeSetValue { n: Lid, value: String },
    NsNodeSetNamespace { n: Lid, uri: String },
    TextContentSet { n: Lid, s: String },
    // store-wide
    /// another client registers this many fresh namespaces / prefixes / names: later registrations
    /// get ids beyond 64, 256, ... (nothing in any tree changes)
    RegisterBulk { namespaces: u32, prefixes: u32, names: u32 },
    SetConsolidation { on: bool },
    RemoveInsignificantWhitespace { n: Lid },
    CreateMissingPrefixes { n: Lid },
    DeduplicateNamespaces { n: Lid },
}

/// what the real call did
#[derive(Clone, Debug)]
pub enum Outcome {
    Ok(Option<Node>),
    Err(String),
    Panic(String),
}

impl Op {
    pub fn name(&self) -> &'static str {
        use Op::*;
        match self {
            NewDocument => "new_document",
            NewElement { .. } => "new_element",
            NewText { .. } => "new_text",
            NewComment { .. } => "new_comment",
            NewPI { .. } => "new_processing_instruction",
            NewAttr { .. } => "new_attribute_node",
            NewNs { .. } => "new_namespace_node",
            NewDocWithElement { .. } => "new_document_with_element",
            Xotify { document: true, .. } => "fixed::Document::xotify",
            Xotify { .. } => "fixed::Element::xotify",
            Parse { kind, .. } => match kind {
                ParseKind::Doc => "parse",
                ParseKind::Fragment => "parse_fragment",
                ParseKind::Bytes => "parse_bytes",
                ParseKind::DocSpan => "parse_with_span_info",
                ParseKind::FragmentSpan => "parse_fragment_with_span_info",
            },
            Append { .. } => "append",
            Prepend { .. } => "prepend",
            InsertAfter { .. } => "insert_after",
            InsertBefore { .. } => "insert_before",
            Detach { .. } => "detach",
            Remove { .. } => "remove",
            Replace { .. } => "replace",
            Wrap { .. } => "element_wrap",
            Unwrap { .. } => "element_unwrap",
            CloneNode { .. } => "clone_node",
            CloneWithPrefixes { .. } => "clone_with_prefixes",
            AnyAppend { .. } => "any_append",
            AppendAttrNode { .. } => "append_attribute_node",
            AppendNsNode { .. } => "append_namespace_node",
            AppendNamespace { .. } => "append_namespace",
            AppendText { .. } => "append_text",
            AppendElement { .. } => "append_element",
            AppendComment { .. } => "append_comment",
            AppendPI { .. } => "append_processing_instruction",
            AttrBatch { .. } => "attributes_mut.batch",
            NsBatch { .. } => "namespaces_mut.batch",
            AttrInsert { .. } => "attributes_mut.insert",
            AttrRemove { .. } => "attributes_mut.remove",
            AttrGetMutSet { .. } => "attributes_mut.get_mut",
            AttrClear { .. } => "attributes_mut.clear",
            AttrEntry { .. } => "attributes_mut.entry",
            SetAttribute { .. } => "set_attribute",
            RemoveAttribute { .. } => "remove_attribute",
            NsInsert { .. } => "namespaces_mut.insert",
            NsRemove { .. } => "namespaces_mut.remove",
            NsGetMutSet { .. } => "namespaces_mut.get_mut",
            NsClear { .. } => "namespaces_mut.clear",
            NsEntry { .. } => "namespaces_mut.entry",
            SetNamespace { .. } => "set_namespace",
            RemoveNamespace { .. } => "remove_namespace",
            SetElementName { .. } => "set_element_name",
            TextSet { .. } => "text_mut.set",
            CommentSet { .. } => "comment_mut.set",
            PISetData { .. } => "pi.set_data",
            PISetTarget { .. } => "pi.set_target",
            AttrNodeSetValue { .. } => "attribute_node_mut.set_value",
            NsNodeSetNamespace { .. } => "namespace_node_mut.set_namespace",
            TextContentSet { .. } => "text_content_mut",
            RegisterBulk { .. } => "add_namespace/add_prefix/add_name (bulk)",
            SetConsolidation { .. } => "set_text_consolidation",
            RemoveInsignificantWhitespace { .. } => "remove_insignificant_whitespace",
            CreateMissingPrefixes { .. } => "create_missing_prefixes",
            DeduplicateNamespaces { .. } => "deduplicate_namespaces",
        }
    }

    /// node arguments (a, b) in call order
    pub fn node_args(&self) -> Vec<Lid> {
        use Op::*;
        match self {
            NewDocWithElement { n }
            | Detach { n }
            | Remove { n }
            | Wrap { n, .. }
            | Unwrap { n }
            | CloneNode { n }
            | CloneWithPrefixes { n }
            | TextSet { n, .. }
            | CommentSet { n, .. }
            | PISetData { n, .. }
            | PISetTarget { n, .. }
            | AttrNodeSetValue { n, .. }
            | NsNodeSetNamespace { n, .. }
            | TextContentSet { n, .. }
            | RemoveInsignificantWhitespace { n }
            | CreateMissingPrefixes { n }
            | DeduplicateNamespaces { n } => vec![*n],
            Append { p, c } | Prepend { p, c } | AnyAppend { p, c } | AppendAttrNode { p, c } | AppendNsNode { p, c } => {
                vec![*p, *c]
            }
            InsertAfter { r, c } | InsertBefore { r, c } => vec![*r, *c],
            Replace { old, new } => vec![*old, *new],
            AppendText { p, .. } | AppendElement { p, .. } | AppendComment { p, .. } | AppendPI { p, .. } | AppendNamespace { p, .. } => vec![*p],
            AttrInsert { e, .. }
            | AttrRemove { e, .. }
            | AttrGetMutSet { e, .. }
            | AttrClear { e }
            | AttrEntry { e, .. }
            | SetAttribute { e, .. }
            | RemoveAttribute { e, .. }
            | NsInsert { e, .. }
            | NsRemove { e, .. }
            | NsGetMutSet { e, .. }
            | NsClear { e }
            | NsEntry { e, .. }
            | SetNamespace { e, .. }
            | RemoveNamespace { e, .. }
            | AttrBatch { e, .. }
            | NsBatch { e, .. }
            | SetElementName { e, .. } => vec![*e],
            _ => vec![],
        }
    }

    /// element-only accessors: documented to panic on a non-element
    pub fn is_element_only(&self) -> bool {
        use Op::*;
        matches!(
            self,
            AttrInsert { .. }
                | AttrRemove { .. }
                | AttrGetMutSet { .. }
                | AttrClear { .. }
                | AttrEntry { .. }
                | SetAttribute { .. }
                | RemoveAttribute { .. }
                | NsInsert { .. }
                | NsRemove { .. }
                | NsGetMutSet { .. }
                | NsClear { .. }
                | NsEntry { .. }
                | SetNamespace { .. }
                | RemoveNamespace { .. }
                | AttrBatch { .. }
                | NsBatch { .. }
                | SetElementName { .. }
        )
    }

    /// operations whose effect the model does not predict node by node; the
    /// result is adopted from a validated read-back under an op-specific constraint
    pub fn is_adopt(&self) -> bool {
        use Op::*;
        matches!(
            self,
            Parse { .. }
                | Xotify { .. }
                | CloneWithPrefixes { .. }
                | RemoveInsignificantWhitespace { .. }
                | CreateMissingPrefixes { .. }
                | DeduplicateNamespaces { .. }
        )
    }

    pub fn is_manipulation(&self) -> bool {
        use Op::*;
        !matches!(
            self,
            NewDocument
                | NewElement { .. }
                | NewText { .. }
                | NewComment { .. }
                | NewPI { .. }
                | NewAttr { .. }
                | NewNs { .. }
                | Parse { .. }
                | Xotify { .. }
                | RegisterBulk { .. }
                | SetConsolidation { .. }
        )
    }

    // ------------------------------------------------------------------ model

    pub fn apply_model(&self, m: &mut Model) -> Pred {
        use Op::*;
        match self {
            NewDocument => Pred::Done(Some(m.new_root(Kind::Doc))),
            NewElement { name } => Pred::Done(Some(m.new_root(Kind::Elem(name.clone())))),
            NewText { s } => Pred::Done(Some(m.new_root(Kind::Text(s.clone())))),
            NewComment { s } => Pred::Done(Some(m.new_root(Kind::Comment(s.clone())))),
            NewPI { target, data } => Pred::Done(Some(m.new_root(Kind::PI(target.clone(), data.clone())))),
            NewAttr { name, value } => Pred::Done(Some(m.new_root(Kind::Attr(name.clone(), value.clone())))),
            NewNs { prefix, uri } => Pred::Done(Some(m.new_root(Kind::Ns(prefix.clone(), uri.clone())))),
            NewDocWithElement { n } => {
                if m.k(*n) != K::Elem {
                    return Pred::Refuse;
                }
                // the element may not be an ancestor problem: a fresh document has no ancestors
                let d = m.new_root(Kind::Doc);
                match m.append(d, *n) {
                    Pred::Done(_) => Pred::Done(Some(d)),
                    other => other,
                }
            }
            Parse { .. } | Xotify { .. } => Pred::Unknown,
            Append { p, c } => m.append(*p, *c),
            Prepend { p, c } => m.prepend(*p, *c),
            InsertAfter { r, c } => m.insert_after(*r, *c),
            InsertBefore { r, c } => m.insert_before(*r, *c),
            Detach { n } => m.detach(*n),
            Remove { n } => m.remove(*n),
            Replace { old, new } => m.replace(*old, *new),
            Wrap { n, name } => m.wrap(*n, name),
            Unwrap { n } => m.unwrap(*n),
            CloneNode { n } => m.clone_node(*n),
            CloneWithPrefixes { .. } => Pred::Unknown,
            AnyAppend { p, c } => match m.k(*c) {
                K::Attr => m.append_special(*p, *c, true),
                K::Ns => m.append_special(*p, *c, false),
                _ => match m.append(*p, *c) {
                    // the node that holds the appended content: the node itself, or the text
                    // node it was merged into
                    Pred::Done(_) => Pred::Done(Some(if m.exists_live(*c) { *c } else { *m.n(*p).kids.last().unwrap() })),
                    o => o,
                },
            },
            AppendAttrNode { p, c } => m.append_special(*p, *c, true),
            AppendNsNode { p, c } => m.append_special(*p, *c, false),
            AppendNamespace { p, prefix, uri } => {
                if m.k(*p) != K::Elem {
                    return Pred::Refuse;
                }
                m.ns_insert(*p, prefix, uri)
            }
            AppendText { p, s } => {
                let c = m.new_root(Kind::Text(s.clone()));
                Self::append_new(m, *p, c)
            }
            AppendElement { p, name } => {
                let c = m.new_root(Kind::Elem(name.clone()));
                Self::append_new(m, *p, c)
            }
            AppendComment { p, s } => {
                let c = m.new_root(Kind::Comment(s.clone()));
                Self::append_new(m, *p, c)
            }
            AppendPI { p, target, data } => {
                let c = m.new_root(Kind::PI(target.clone(), data.clone()));
                Self::append_new(m, *p, c)
            }
            AttrInsert { e, name, value } | SetAttribute { e, name, value } => {
                if m.k(*e) != K::Elem {
                    return Pred::Refuse;
                }
                m.attr_insert(*e, name, value)
            }
            AttrRemove { e, name } | RemoveAttribute { e, name } => {
                if m.k(*e) != K::Elem {
                    return Pred::Refuse;
                }
                m.map_remove(*e, &MapKey::Attr(name.clone()))
            }
            AttrGetMutSet { e, name, value } => {
                if m.k(*e) != K::Elem {
                    return Pred::Refuse;
                }
                if m.find_attr(*e, name).is_some() {
                    m.attr_insert(*e, name, value)
                } else {
                    Pred::Done(None)
                }
            }
            AttrClear { e } => {
                if m.k(*e) != K::Elem {
                    return Pred::Refuse;
                }
                m.map_clear(*e, true)
            }
            AttrEntry { e, name, mode, value } => {
                if m.k(*e) != K::Elem {
                    return Pred::Refuse;
                }
                let present = m.find_attr(*e, name).is_some();
                match mode {
                    EntryMode::OrInsert | EntryMode::OrInsertWith => {
                        if present {
                            Pred::Done(None)
                        } else {
                            m.attr_insert(*e, name, value)
                        }
                    }
                    EntryMode::AndModifyOrInsert => {
                        // and_modify(|v| v.push_str("!")).or_insert(value)
                        if present {
                            let a = m.find_attr(*e, name).unwrap();
                            let nv = match &m.n(a).kind {
                                Kind::Attr(_, v) => format!("{}!", v),
                                _ => unreachable!(),
                            };
                            m.attr_insert(*e, name, &nv)
                        } else {
                            m.attr_insert(*e, name, value)
                        }
                    }
                    EntryMode::OrDefault => {
                        if present {
                            Pred::Done(None)
                        } else {
                            m.attr_insert(*e, name, "")
                        }
                    }
                    EntryMode::OccupiedInsert => {
                        if present {
                            m.attr_insert(*e, name, value)
                        } else {
                            Pred::Done(None)
                        }
                    }
                    EntryMode::OccupiedRemove => {
                        if present {
                            m.map_remove(*e, &MapKey::Attr(name.clone()))
                        } else {
                            Pred::Done(None)
                        }
                    }
                    EntryMode::Key => Pred::Done(None),
                }
            }
            NsInsert { e, prefix, uri } | SetNamespace { e, prefix, uri } => {
                if m.k(*e) != K::Elem {
                    return Pred::Refuse;
                }
                m.ns_insert(*e, prefix, uri)
            }
            AttrBatch { e, items } => {
                if m.k(*e) != K::Elem {
                    return Pred::Refuse;
                }
                for st in items {
                    match st {
                        ViewStep::Insert(name, value) => m.attr_insert(*e, name, value),
                        ViewStep::Remove(name) => m.map_remove(*e, &MapKey::Attr(name.clone())),
                        ViewStep::Clear => m.map_clear(*e, true),
                        ViewStep::Get(_) => Pred::Done(None),
                    };
                }
                Pred::Done(None)
            }
            NsBatch { e, items } => {
                if m.k(*e) != K::Elem {
                    return Pred::Refuse;
                }
                for st in items {
                    match st {
                        ViewStep::Insert(prefix, uri) => m.ns_insert(*e, prefix, uri),
                        ViewStep::Remove(prefix) => m.map_remove(*e, &MapKey::Ns(prefix.clone())),
                        ViewStep::Clear => m.map_clear(*e, false),
                        ViewStep::Get(_) => Pred::Done(None),
                    };
                }
                Pred::Done(None)
            }
            NsRemove { e, prefix } | RemoveNamespace { e, prefix } => {
                if m.k(*e) != K::Elem {
                    return Pred::Refuse;
                }
                m.map_remove(*e, &MapKey::Ns(prefix.clone()))
            }
            NsGetMutSet { e, prefix, uri } => {
                if m.k(*e) != K::Elem {
                    return Pred::Refuse;
                }
                if m.find_ns(*e, prefix).is_some() {
                    m.ns_insert(*e, prefix, uri)
                } else {
                    Pred::Done(None)
                }
            }
            NsClear { e } => {
                if m.k(*e) != K::Elem {
                    return Pred::Refuse;
                }
                m.map_clear(*e, false)
            }
            NsEntry { e, prefix, mode, uri } => {
                if m.k(*e) != K::Elem {
                    return Pred::Refuse;
                }
                let present = m.find_ns(*e, prefix).is_some();
                match mode {
                    EntryMode::OrInsert | EntryMode::OrInsertWith | EntryMode::OrDefault => {
                        if present {
                            Pred::Done(None)
                        } else {
                            m.ns_insert(*e, prefix, uri)
                        }
                    }
                    EntryMode::AndModifyOrInsert | EntryMode::OccupiedInsert => {
                        if present || *mode == EntryMode::AndModifyOrInsert {
                            m.ns_insert(*e, prefix, uri)
                        } else {
                            Pred::Done(None)
                        }
                    }
                    EntryMode::OccupiedRemove => {
                        if present {
                            m.map_remove(*e, &MapKey::Ns(prefix.clone()))
                        } else {
                            Pred::Done(None)
                        }
                    }
                    EntryMode::Key => Pred::Done(None),
                }
            }
            SetElementName { e, name } => {
                if m.k(*e) != K::Elem {
                    return Pred::Refuse;
                }
                m.nm(*e).kind = Kind::Elem(name.clone());
                Pred::Done(None)
            }
            TextSet { n, s } => {
                if let Kind::Text(t) = &mut m.nm(*n).kind {
                    *t = s.clone();
                }
                Pred::Done(None)
            }
            CommentSet { n, s } => {
                if let Kind::Comment(t) = &mut m.nm(*n).kind {
                    if s.contains("--") {
                        return Pred::Refuse;
                    }
                    *t = s.clone();
                }
                Pred::Done(None)
            }
            PISetData { n, data } => {
                if let Kind::PI(_, d) = &mut m.nm(*n).kind {
                    *d = match data {
                        Some(x) if !x.is_empty() => Some(x.clone()),
                        _ => None,
                    };
                }
                Pred::Done(None)
            }
            PISetTarget { n, target } => {
                if let Kind::PI(t, _) = &mut m.nm(*n).kind {
                    *t = target.clone();
                }
                Pred::Done(None)
            }
            AttrNodeSetValue { n, value } => {
                if let Kind::Attr(_, v) = &mut m.nm(*n).kind {
                    *v = value.clone();
                }
                Pred::Done(None)
            }
            NsNodeSetNamespace { n, uri } => {
                if let Kind::Ns(_, u) = &mut m.nm(*n).kind {
                    *u = uri.clone();
                }
                Pred::Done(None)
            }
            TextContentSet { n, s } => m.text_content_set(*n, s),
            SetConsolidation { on } => {
                m.set_cons(*on);
                Pred::Done(None)
            }
            RegisterBulk { .. } => Pred::Done(None),
            RemoveInsignificantWhitespace { .. } | CreateMissingPrefixes { .. } | DeduplicateNamespaces { .. } => {
                Pred::Unknown
            }
        }
    }

    fn append_new(m: &mut Model, p: Lid, c: Lid) -> Pred {
        match m.append(p, c) {
            Pred::Done(_) => Pred::Done(None),
            Pred::Refuse => {
                // the convenience call creates the node first; a refusal leaves it
                // behind as an unattached node. That is allocation, not a change of
                // any existing tree; the model keeps it as an (unnamed) root.
                Pred::Refuse
            }
            Pred::Unknown => Pred::Unknown,
        }
    }

    // ------------------------------------------------------------------ real

    /// Execute against the real store. `h` resolves logical ids to handles.
    /// Must only be called with live nodes (calls on removed nodes are documented to panic).
    pub fn apply_real(&self, x: &mut Xot, h: &dyn Fn(Lid) -> Node) -> Result<Option<Node>, String> {
        use Op::*;
        fn note(first: &mut Option<String>, m: String) {
            if first.is_none() {
                *first = Some(m);
            }
        }
        fn name(x: &mut Xot, n: &Nm) -> xot::NameId {
            let ns = x.add_namespace(&n.uri);
            x.add_name_ns(&n.local, ns)
        }
        fn e2s<T>(r: Result<T, xot::Error>) -> Result<T, String> {
            r.map_err(|e| format!("{:?}", e))
        }
        match self {
            NewDocument => Ok(Some(x.new_document())),
            NewElement { name: n } => {
                let n = name(x, n);
                Ok(Some(x.new_element(n)))
            }
            NewText { s } => Ok(Some(x.new_text(s))),
            NewComment { s } => Ok(Some(x.new_comment(s))),
            NewPI { target, data } => {
                let t = name(x, target);
                Ok(Some(x.new_processing_instruction(t, data.as_deref())))
            }
            NewAttr { name: n, value } => {
                let n = name(x, n);
                Ok(Some(x.new_attribute_node(n, value.clone())))
            }
            NewNs { prefix, uri } => {
                let p = x.add_prefix(prefix);
                let u = x.add_namespace(uri);
                Ok(Some(x.new_namespace_node(p, u)))
            }
            NewDocWithElement { n } => e2s(x.new_document_with_element(h(*n))).map(Some),
            Xotify { e, document, split } => {
                let sp = *split;
                let mut coin = move || sp;
                if *document {
                    let d = crate::absdoc::ADoc { before: vec![], root: e.clone(), after: vec![] };
                    Ok(Some(crate::absdoc::fx_doc(&d, &mut coin).xotify(x)))
                } else {
                    Ok(Some(crate::absdoc::fx_elem(e, &mut coin).xotify(x)))
                }
            }
            Parse { text, kind } => match kind {
                ParseKind::Doc => x.parse(text).map(Some).map_err(|e| format!("{:?}", e)),
                ParseKind::Fragment => x.parse_fragment(text).map(Some).map_err(|e| format!("{:?}", e)),
                ParseKind::Bytes => x.parse_bytes(text.as_bytes()).map(Some).map_err(|e| format!("{:?}", e)),
                ParseKind::DocSpan => {
                    x.parse_with_span_info(text).map(|(n, _)| Some(n)).map_err(|e| format!("{:?}", e))
                }
                ParseKind::FragmentSpan => {
                    x.parse_fragment_with_span_info(text).map(|(n, _)| Some(n)).map_err(|e| format!("{:?}", e))
                }
            },
            Append { p, c } => e2s(x.append(h(*p), h(*c))).map(|_| None),
            Prepend { p, c } => e2s(x.prepend(h(*p), h(*c))).map(|_| None),
            InsertAfter { r, c } => e2s(x.insert_after(h(*r), h(*c))).map(|_| None),
            InsertBefore { r, c } => e2s(x.insert_before(h(*r), h(*c))).map(|_| None),
            Detach { n } => e2s(x.detach(h(*n))).map(|_| None),
            Remove { n } => e2s(x.remove(h(*n))).map(|_| None),
            Replace { old, new } => e2s(x.replace(h(*old), h(*new))).map(|_| None),
            Wrap { n, name: nm } => {
                let nm = name(x, nm);
                e2s(x.element_wrap(h(*n), nm)).map(Some)
            }
            Unwrap { n } => e2s(x.element_unwrap(h(*n))).map(|_| None),
            CloneNode { n } => Ok(Some(x.clone_node(h(*n)))),
            CloneWithPrefixes { n } => Ok(Some(x.clone_with_prefixes(h(*n)))),
            AnyAppend { p, c } => e2s(x.any_append(h(*p), h(*c))).map(Some),
            AppendAttrNode { p, c } => e2s(x.append_attribute_node(h(*p), h(*c))).map(Some),
            AppendNsNode { p, c } => e2s(x.append_namespace_node(h(*p), h(*c))).map(Some),
            AppendNamespace { p, prefix, uri } => {
                let ns = xot::xmlname::CreateNamespace::new(x, prefix, uri);
                e2s(x.append_namespace(h(*p), &ns)).map(Some)
            }
            AppendText { p, s } => e2s(x.append_text(h(*p), s)).map(|_| None),
            AppendElement { p, name: nm } => {
                let nm = name(x, nm);
                e2s(x.append_element(h(*p), nm)).map(|_| None)
            }
            AppendComment { p, s } => e2s(x.append_comment(h(*p), s)).map(|_| None),
            AppendPI { p, target, data } => {
                let t = name(x, target);
                e2s(x.append_processing_instruction(h(*p), t, data.as_deref())).map(|_| None)
            }
            AttrInsert { e, name: nm, value } => {
                let nm = name(x, nm);
                let mut a = x.attributes_mut(h(*e));
                a.insert(nm, value.clone());
                Ok(a.get_node(nm))
            }
            SetAttribute { e, name: nm, value } => {
                let nm = name(x, nm);
                x.set_attribute(h(*e), nm, value.clone());
                Ok(x.attributes(h(*e)).get_node(nm))
            }
            AttrRemove { e, name: nm } => {
                let nm = name(x, nm);
                x.attributes_mut(h(*e)).remove(nm);
                Ok(None)
            }
            RemoveAttribute { e, name: nm } => {
                let nm = name(x, nm);
                x.remove_attribute(h(*e), nm);
                Ok(None)
            }
            AttrGetMutSet { e, name: nm, value } => {
                let nm = name(x, nm);
                let mut a = x.attributes_mut(h(*e));
                if let Some(v) = a.get_mut(nm) {
                    *v = value.clone();
                    return Ok(a.get_node(nm));
                }
                Ok(None)
            }
            AttrClear { e } => {
                x.attributes_mut(h(*e)).clear();
                Ok(None)
            }
            AttrEntry { e, name: nm, mode, value } => {
                let nm = name(x, nm);
                let en = h(*e);
                {
                    let mut a = x.attributes_mut(en);
                    let entry = a.entry(nm);
                    match mode {
                        EntryMode::OrInsert => {
                            entry.or_insert(value.clone());
                        }
                        EntryMode::OrInsertWith => {
                            let v = value.clone();
                            entry.or_insert_with(move || v);
                        }
                        EntryMode::AndModifyOrInsert => {
                            entry.and_modify(|v| v.push('!')).or_insert(value.clone());
                        }
                        EntryMode::OrDefault => {
                            entry.or_default();
                        }
                        EntryMode::OccupiedInsert => {
                            if let xot::Entry::Occupied(mut o) = entry {
                                // three ways to write through an occupied entry (chosen by the value, so
                                // that the choice is part of the replayable operation)
                                let before = o.get().clone();
                                match value.len() % 3 {
                                    0 => {
                                        let old = o.insert(value.clone());
                                        if old != before {
                                            return Err(format!("oracle:C11:occupied entry insert returned {:?}, get() showed {:?}", old, before));
                                        }
                                    }
                                    1 => *o.get_mut() = value.clone(),
                                    _ => *o.into_mut() = value.clone(),
                                }
                            }
                        }
                        EntryMode::OccupiedRemove => {
                            if let xot::Entry::Occupied(o) = entry {
                                o.remove();
                            }
                        }
                        EntryMode::Key => {
                            if *entry.key() != nm {
                                return Err("entry.key() differs from the requested key".into());
                            }
                        }
                    }
                }
                Ok(x.attributes(en).get_node(nm))
            }
            NsInsert { e, prefix, uri } => {
                let p = x.add_prefix(prefix);
                let u = x.add_namespace(uri);
                let mut a = x.namespaces_mut(h(*e));
                a.insert(p, u);
                Ok(a.get_node(p))
            }
            AttrBatch { e, items } => {
                let keyed: Vec<(Option<xot::NameId>, &ViewStep<Nm>)> = items
                    .iter()
                    .map(|st| match st {
                        ViewStep::Insert(k, _) | ViewStep::Remove(k) | ViewStep::Get(k) => (Some(name(x, k)), st),
                        ViewStep::Clear => (None, st),
                    })
                    .collect();
                let mut first: Option<String> = None;
                let mut a = x.attributes_mut(h(*e));
                // what the view itself must show after every step: a plain ordered map
                let mut shadow: Vec<(xot::NameId, String)> = a.to_vec().into_iter().map(|(k, v)| (k, v.clone())).collect();
                for (k, st) in keyed {
                    match (k, st) {
                        (Some(k), ViewStep::Insert(_, value)) => {
                            let before = shadow.iter().find(|(sk, _)| *sk == k).map(|(_, v)| v.clone());
                            let got = a.insert(k, value.clone());
                            if got != before {
                                note(&mut first, format!("attributes_mut view: insert returned {:?} as previous value, the map held {:?}", got, before));
                            }
                            match shadow.iter_mut().find(|(sk, _)| *sk == k) {
                                Some(ent) => ent.1 = value.clone(),
                                None => shadow.push((k, value.clone())),
                            }
                        }
                        (Some(k), ViewStep::Remove(_)) => {
                            let before = shadow.iter().find(|(sk, _)| *sk == k).map(|(_, v)| v.clone());
                            let got = a.remove(k);
                            if got != before {
                                note(&mut first, format!("attributes_mut view: remove returned {:?}, the map held {:?}", got, before));
                            }
                            shadow.retain(|(sk, _)| *sk != k);
                        }
                        (Some(k), ViewStep::Get(_)) => {
                            let want = shadow.iter().find(|(sk, _)| *sk == k).map(|(_, v)| v.clone());
                            let got = a.get(k).cloned();
                            if got != want || a.contains_key(k) != want.is_some() || a.get_node(k).is_some() != want.is_some() {
                                note(&mut first, format!("attributes_mut view: get / contains_key / get_node of a key give {:?}, the map holds {:?}", got, want));
                            }
                        }
                        (_, ViewStep::Clear) => {
                            a.clear();
                            shadow.clear();
                        }
                        _ => {}
                    }
                    let now: Vec<(xot::NameId, String)> = a.to_vec().into_iter().map(|(k, v)| (k, v.clone())).collect();
                    if now != shadow || a.len() != shadow.len() || a.is_empty() != shadow.is_empty() {
                        note(&mut first, format!("attributes_mut view shows {:?} after a step, an ordered map would hold {:?}", now, shadow));
                    }
                }
                if let Some(m) = first {
                    // the calls go on after a disagreement (what they leave behind is for the read-back to judge)
                    crate::world::push_soft(crate::world::Violation::new("C11", "view-disagreement", format!("{}: {}", self.name(), m)));
                }
                Ok(None)
            }
            NsBatch { e, items } => {
                let keyed: Vec<(Option<xot::PrefixId>, Option<xot::NamespaceId>, &ViewStep<String>)> = items
                    .iter()
                    .map(|st| match st {
                        ViewStep::Insert(k, u) => (Some(x.add_prefix(k)), Some(x.add_namespace(u)), st),
                        ViewStep::Remove(k) | ViewStep::Get(k) => (Some(x.add_prefix(k)), None, st),
                        ViewStep::Clear => (None, None, st),
                    })
                    .collect();
                let mut first: Option<String> = None;
                let mut a = x.namespaces_mut(h(*e));
                let mut shadow: Vec<(xot::PrefixId, xot::NamespaceId)> = a.to_vec();
                for (k, u, st) in keyed {
                    match (k, st) {
                        (Some(k), ViewStep::Insert(..)) => {
                            let u = u.unwrap();
                            let before = shadow.iter().find(|(sk, _)| *sk == k).map(|(_, v)| *v);
                            let got = a.insert(k, u);
                            if got != before {
                                note(&mut first, format!("namespaces_mut view: insert returned {:?} as previous value, the map held {:?}", got, before));
                            }
                            match shadow.iter_mut().find(|(sk, _)| *sk == k) {
                                Some(ent) => ent.1 = u,
                                None => shadow.push((k, u)),
                            }
                        }
                        (Some(k), ViewStep::Remove(_)) => {
                            let before = shadow.iter().find(|(sk, _)| *sk == k).map(|(_, v)| *v);
                            let got = a.remove(k);
                            if got != before {
                                note(&mut first, format!("namespaces_mut view: remove returned {:?}, the map held {:?}", got, before));
                            }
                            shadow.retain(|(sk, _)| *sk != k);
                        }
                        (Some(k), ViewStep::Get(_)) => {
                            let want = shadow.iter().find(|(sk, _)| *sk == k).map(|(_, v)| *v);
                            let got = a.get(k).copied();
                            if got != want || a.contains_key(k) != want.is_some() || a.get_node(k).is_some() != want.is_some() {
                                note(&mut first, format!("namespaces_mut view: get / contains_key / get_node of a key give {:?}, the map holds {:?}", got, want));
                            }
                        }
                        (_, ViewStep::Clear) => {
                            a.clear();
                            shadow.clear();
                        }
                        _ => {}
                    }
                    let now: Vec<(xot::PrefixId, xot::NamespaceId)> = a.to_vec();
                    if now != shadow || a.len() != shadow.len() || a.is_empty() != shadow.is_empty() {
                        note(&mut first, format!("namespaces_mut view shows {:?} after a step, an ordered map would hold {:?}", now, shadow));
                    }
                }
                if let Some(m) = first {
                    // the calls go on after a disagreement (what they leave behind is for the read-back to judge)
                    crate::world::push_soft(crate::world::Violation::new("C11", "view-disagreement", format!("{}: {}", self.name(), m)));
                }
                Ok(None)
            }
            SetNamespace { e, prefix, uri } => {
                let p = x.add_prefix(prefix);
                let u = x.add_namespace(uri);
                x.set_namespace(h(*e), p, u);
                Ok(x.namespaces(h(*e)).get_node(p))
            }
            NsRemove { e, prefix } => {
                let p = x.add_prefix(prefix);
                x.namespaces_mut(h(*e)).remove(p);
                Ok(None)
            }
            RemoveNamespace { e, prefix } => {
                let p = x.add_prefix(prefix);
                x.remove_namespace(h(*e), p);
                Ok(None)
            }
            NsGetMutSet { e, prefix, uri } => {
                let p = x.add_prefix(prefix);
                let u = x.add_namespace(uri);
                let mut a = x.namespaces_mut(h(*e));
                if let Some(v) = a.get_mut(p) {
                    *v = u;
                    return Ok(a.get_node(p));
                }
                Ok(None)
            }
            NsClear { e } => {
                x.namespaces_mut(h(*e)).clear();
                Ok(None)
            }
            NsEntry { e, prefix, mode, uri } => {
                let p = x.add_prefix(prefix);
                let u = x.add_namespace(uri);
                let en = h(*e);
                {
                    let mut a = x.namespaces_mut(en);
                    let entry = a.entry(p);
                    match mode {
                        EntryMode::OrInsert | EntryMode::OrDefault => {
                            entry.or_insert(u);
                        }
                        EntryMode::OrInsertWith => {
                            entry.or_insert_with(move || u);
                        }
                        EntryMode::AndModifyOrInsert => {
                            entry.and_modify(|v| *v = u).or_insert(u);
                        }
                        EntryMode::OccupiedInsert => {
                            if let xot::Entry::Occupied(mut o) = entry {
                                let before = *o.get();
                                match uri.len() % 3 {
                                    0 => {
                                        let old = o.insert(u);
                                        if old != before {
                                            return Err(format!("oracle:C11:occupied entry insert returned {:?}, get() showed {:?}", old, before));
                                        }
                                    }
                                    1 => *o.get_mut() = u,
                                    _ => *o.into_mut() = u,
                                }
                            }
                        }
                        EntryMode::OccupiedRemove => {
                            if let xot::Entry::Occupied(o) = entry {
                                o.remove();
                            }
                        }
                        EntryMode::Key => {
                            if *entry.key() != p {
                                return Err("entry.key() differs from the requested key".into());
                            }
                        }
                    }
                }
                Ok(x.namespaces(en).get_node(p))
            }
            SetElementName { e, name: nm } => {
                let two_routes = nm.local.len() + nm.uri.len();
                let nm = name(x, nm);
                if two_routes % 2 == 0 {
                    x.set_element_name(h(*e), nm);
                } else {
                    // the same through the typed mutable accessor (documented to be None on a non-element;
                    // the engine never sends a non-element here)
                    x.element_mut(h(*e)).expect("harness: element_mut on an element").set_name(nm);
                }
                Ok(None)
            }
            TextSet { n, s } => {
                if let Some(t) = x.text_mut(h(*n)) {
                    t.set(s.clone());
                }
                Ok(None)
            }
            CommentSet { n, s } => {
                if let Some(c) = x.comment_mut(h(*n)) {
                    e2s(c.set(s.clone()))?;
                }
                Ok(None)
            }
            PISetData { n, data } => {
                if let Some(p) = x.processing_instruction_mut(h(*n)) {
                    p.set_data(data.clone());
                }
                Ok(None)
            }
            PISetTarget { n, target } => {
                let t = name(x, target);
                if let Some(p) = x.processing_instruction_mut(h(*n)) {
                    e2s(p.set_target::<String>(t))?;
                }
                Ok(None)
            }
            AttrNodeSetValue { n, value } => {
                if let Some(a) = x.attribute_node_mut(h(*n)) {
                    a.set_value(value.clone());
                }
                Ok(None)
            }
            NsNodeSetNamespace { n, uri } => {
                let u = x.add_namespace(uri);
                if let Some(a) = x.namespace_node_mut(h(*n)) {
                    a.set_namespace(u);
                }
                Ok(None)
            }
            TextContentSet { n, s } => {
                if let Some(t) = x.text_content_mut(h(*n)) {
                    t.set(s.clone());
                }
                Ok(None)
            }
            SetConsolidation { on } => {
                x.set_text_consolidation(*on);
                Ok(None)
            }
            RegisterBulk { namespaces, prefixes, names } => {
                for i in 0..*namespaces {
                    x.add_namespace(&format!("urn:bulk:{}", i));
                }
                for i in 0..*prefixes {
                    x.add_prefix(&format!("bulk{}", i));
                }
                for i in 0..*names {
                    x.add_name(&format!("bulk{}", i));
                }
                Ok(None)
            }
            RemoveInsignificantWhitespace { n } => {
                x.remove_insignificant_whitespace(h(*n));
                Ok(None)
            }
            CreateMissingPrefixes { n } => e2s(x.create_missing_prefixes(h(*n))).map(|_| None),
            DeduplicateNamespaces { n } => {
                x.deduplicate_namespaces(h(*n));
                Ok(None)
            }
        }
    }
}
