//! Seeded generation of operations from the current model state.
//! A `Profile` is the swarm configuration of one run.

use crate::absdoc::{self, GenCfg, ATTR_VALUES, COMMENTS, LOCALS, PI_DATA, PI_TARGETS, PREFIXES, TEXTS, URIS};
use crate::model::{Lid, Model, Nm, K};
use crate::ops::{ViewStep, EntryMode, Op, ParseKind};
use crate::rng::Rng;
use serde::{Deserialize, Serialize};

#[derive(Clone, Debug, Serialize, Deserialize)]
pub struct Profile {
    pub clients: usize,
    pub steps: usize,
    pub max_nodes: usize,
    /// weights per operation family
    pub w_create: u32,
    pub w_parse: u32,
    pub w_move: u32,
    pub w_remove: u32,
    pub w_replace: u32,
    pub w_wrap: u32,
    pub w_clone: u32,
    pub w_map: u32,
    pub w_special_node: u32,
    pub w_value: u32,
    pub w_convenience: u32,
    pub w_storewide: u32,
    /// percentage of structure calls whose arguments are drawn from all live
    /// nodes of every kind (calls expected to be refused = injected faults)
    pub fault_pct: u32,
    /// percentage of parse operations given damaged text
    pub parse_fail_pct: u32,
    /// per-step probability (per mille) of flipping the consolidation switch
    pub flip_pm: u32,
    pub initial_cons: bool,
    pub stall_pm: u32,
    pub locality_pct: u32,
    /// only content that has an XML representation (a non-empty prefix is never bound to the
    /// empty namespace name, no "--" in comments); C10's repair clause needs this, the others do not
    #[serde(default)]
    pub representable_ns_only: bool,
    /// per-step probability (percent) of a scripted multi-call motif (a burst of related calls
    /// placed right after each other: faults and repairs land on state that is still in flight)
    #[serde(default)]
    pub motif_pct: u32,
    /// per-step probability (percent) that a client repeats its previous call with the same
    /// arguments (idempotence, second-call effects)
    #[serde(default)]
    pub repeat_pct: u32,
}

impl Profile {
    pub fn swarm(rng: &mut Rng) -> Profile {
        let faults_on = rng.pct(80);
        let flip = if rng.pct(25) { *rng.pick(&[5u32, 20, 50]) } else { 0 };
        Profile {
            clients: rng.range(1, 4),
            steps: rng.range(8, 60),
            max_nodes: rng.range(12, 60),
            w_create: rng.range(2, 10) as u32,
            w_parse: rng.range(0, 4) as u32,
            w_move: rng.range(5, 30) as u32,
            w_remove: rng.range(1, 10) as u32,
            w_replace: rng.range(0, 8) as u32,
            w_wrap: rng.range(0, 8) as u32,
            w_clone: rng.range(0, 5) as u32,
            w_map: rng.range(0, 10) as u32,
            w_special_node: rng.range(0, 8) as u32,
            w_value: rng.range(0, 6) as u32,
            w_convenience: rng.range(0, 8) as u32,
            w_storewide: rng.range(0, 3) as u32,
            fault_pct: if faults_on { *rng.pick(&[5u32, 10, 25, 50]) } else { 0 },
            parse_fail_pct: if faults_on { *rng.pick(&[0u32, 10, 30]) } else { 0 },
            flip_pm: flip,
            initial_cons: !rng.pct(10),
            stall_pm: *rng.pick(&[0u32, 0, 30, 100]),
            locality_pct: *rng.pick(&[0u32, 50, 80, 95]),
            representable_ns_only: false,
            motif_pct: 0,
            repeat_pct: *rng.pick(&[0u32, 2, 5]),
        }
    }
}

pub fn gen_name(rng: &mut Rng) -> Nm {
    let uri = if rng.pct(40) { rng.pick(&URIS).to_string() } else { String::new() };
    Nm { local: rng.pick(&LOCALS).to_string(), uri }
}
/// strings in which no byte offset other than 0 (resp. 1) and the end is certain to be a character
/// boundary: code that slices at a fixed byte offset shows
pub const STRADDLING: [&str; 3] = ["\u{e9}\u{e9}\u{e9}\u{e9}\u{e9}\u{e9}\u{e9}\u{e9}\u{e9}\u{e9}\u{e9}\u{e9}\u{e9}\u{e9}\u{e9}\u{e9}\u{e9}\u{e9}\u{e9}\u{e9}\u{e9}\u{e9}\u{e9}\u{e9}\u{e9}\u{e9}\u{e9}\u{e9}\u{e9}\u{e9}\u{e9}\u{e9}\u{e9}\u{e9}\u{e9}\u{e9}\u{e9}\u{e9}\u{e9}\u{e9}", "a\u{e9}\u{e9}\u{e9}\u{e9}\u{e9}\u{e9}\u{e9}\u{e9}\u{e9}\u{e9}\u{e9}\u{e9}\u{e9}\u{e9}\u{e9}\u{e9}\u{e9}\u{e9}\u{e9}\u{e9}\u{e9}\u{e9}\u{e9}\u{e9}\u{e9}\u{e9}\u{e9}\u{e9}\u{e9}\u{e9}\u{e9}\u{e9}\u{e9}\u{e9}\u{e9}\u{e9}\u{e9}\u{e9}\u{e9}\u{e9}", "\u{1F600}\u{1F600}\u{1F600}\u{1F600}\u{1F600}\u{1F600}\u{1F600}\u{1F600}\u{1F600}\u{1F600}\u{1F600}\u{1F600}\u{1F600}\u{1F600}\u{1F600}\u{1F600}\u{1F600}\u{1F600}"];
pub fn gen_text(rng: &mut Rng) -> String {
    if rng.pct(5) {
        String::new()
    } else if rng.pct(4) {
        rng.pick_str(&STRADDLING).to_string()
    } else {
        rng.pick(&TEXTS).to_string()
    }
}
fn gen_prefix(rng: &mut Rng) -> String {
    if rng.pct(20) {
        String::new()
    } else if rng.pct(10) {
        format!("n{}", rng.below(3))
    } else {
        rng.pick(&PREFIXES).to_string()
    }
}
/// a processing-instruction target; now and then one in a namespace (cannot be serialised:
/// serialisation has to refuse it), which C10's profile of representable content leaves out
fn pi_target(rng: &mut Rng, prof: &Profile) -> Nm {
    if !prof.representable_ns_only && rng.pct(2) {
        // a reserved target: the API takes it, XML cannot express it
        return Nm::new(rng.pick_str(&["XML", "xml", "XmL"]), "");
    }
    if !prof.representable_ns_only && rng.pct(3) {
        Nm::new(rng.pick_str(&PI_TARGETS), rng.pick_str(&URIS))
    } else {
        Nm::new(rng.pick_str(&PI_TARGETS), "")
    }
}
/// data of a processing instruction; now and then the empty string, which is not the same as no data
fn pi_data(rng: &mut Rng, prof: &Profile) -> Option<String> {
    if !prof.representable_ns_only && rng.pct(6) {
        Some(String::new())
    } else if rng.pct(60) {
        Some(rng.pick(&PI_DATA).to_string())
    } else {
        None
    }
}
fn gen_uri(rng: &mut Rng) -> String {
    if rng.pct(5) {
        String::new()
    } else {
        rng.pick(&URIS).to_string()
    }
}

pub struct Picker<'a> {
    pub m: &'a Model,
    pub live: Vec<Lid>,
    pub home: &'a [Lid],
    pub locality_pct: u32,
}

impl<'a> Picker<'a> {
    pub fn new(m: &'a Model, home: &'a [Lid], locality_pct: u32) -> Self {
        Picker { m, live: m.live_lids(), home, locality_pct }
    }
    fn in_home(&self, l: Lid) -> bool {
        self.home.contains(&self.m.root_of(l))
    }
    pub fn any(&self, rng: &mut Rng) -> Option<Lid> {
        rng.pick_opt(&self.live).copied()
    }
    pub fn of<F: Fn(Lid) -> bool>(&self, rng: &mut Rng, f: F) -> Option<Lid> {
        let local = rng.pct(self.locality_pct);
        let c: Vec<Lid> = self.live.iter().copied().filter(|l| f(*l) && (!local || self.in_home(*l))).collect();
        if c.is_empty() && local {
            let c: Vec<Lid> = self.live.iter().copied().filter(|l| f(*l)).collect();
            return rng.pick_opt(&c).copied();
        }
        rng.pick_opt(&c).copied()
    }
    pub fn kind(&self, rng: &mut Rng, k: K) -> Option<Lid> {
        self.of(rng, |l| self.m.k(l) == k)
    }
    pub fn container(&self, rng: &mut Rng) -> Option<Lid> {
        self.of(rng, |l| matches!(self.m.k(l), K::Elem | K::Doc))
    }
    pub fn normal_nondoc(&self, rng: &mut Rng) -> Option<Lid> {
        self.of(rng, |l| matches!(self.m.k(l), K::Elem | K::Text | K::Comment | K::PI))
    }
    pub fn attached_normal(&self, rng: &mut Rng) -> Option<Lid> {
        self.of(rng, |l| self.m.kid_index(l).is_some())
    }
}

/// pick (destination, child) for a move with a bias toward interesting relations
fn pick_move_pair(p: &Picker, rng: &mut Rng, sibling_ref: bool) -> Option<(Lid, Lid)> {
    let m = p.m;
    let r = rng.below(100);
    if sibling_ref {
        let reference = p.attached_normal(rng)?;
        let parent = m.n(reference).parent.unwrap();
        let sibs = &m.n(parent).kids;
        let child = if r < 30 && sibs.len() > 1 {
            // a sibling (adjacent ones included): already-in-place and neighbour cases
            *rng.pick(sibs)
        } else if r < 45 {
            // a text node from anywhere (text next to text on both sides)
            p.kind(rng, K::Text)?
        } else if r < 60 {
            // an unattached root
            p.of(rng, |l| m.n(l).parent.is_none() && m.k(l) != K::Doc)?
        } else {
            p.normal_nondoc(rng)?
        };
        Some((reference, child))
    } else {
        let parent = p.container(rng)?;
        let kids = &m.n(parent).kids;
        let child = if r < 25 && !kids.is_empty() {
            *rng.pick(kids)
        } else if r < 40 {
            p.kind(rng, K::Text)?
        } else if r < 55 {
            p.of(rng, |l| m.n(l).parent.is_none() && m.k(l) != K::Doc)?
        } else {
            p.normal_nondoc(rng)?
        };
        Some((parent, child))
    }
}

pub fn gen_xml_text(rng: &mut Rng, fragment: bool) -> String {
    if !fragment && rng.pct(2) {
        // a deep, narrow document: more open elements than fit a machine word of flags, a byte of depth, ...
        let depth = *rng.pick(&[33usize, 65, 70, 130, 260]);
        let u = rng.pick_str(&URIS);
        let mut esc = String::new();
        absdoc::esc_attr(u, &mut esc);
        let mut s = format!("<r><e xmlns:p=\"{}\" xmlns=\"{}\">", esc, esc);
        for i in 0..depth {
            s.push_str(if i % 7 == 3 { "<p:d>" } else { "<d>" });
        }
        s.push_str("t");
        for i in (0..depth).rev() {
            s.push_str(if i % 7 == 3 { "</p:d>" } else { "</d>" });
        }
        s.push_str("</e><f/></r>");
        return s;
    }
    let cfg = GenCfg::swarm(rng);
    let d = absdoc::gen_doc(rng, &cfg);
    let mut coin = rng.fork();
    let coin_pct = *coin.pick(&[5u32, 15, 15, 50]);
    let mut cdata = move || coin.pct(coin_pct);
    if fragment {
        let mut out = String::new();
        let mut r2 = rng.fork();
        let n = r2.range(0, 3);
        let mut last_text = false;
        let mut ids = 100u32;
        for _ in 0..n {
            if r2.pct(40) && !last_text {
                // top-level character data of a fragment, also as text next to CDATA sections
                absdoc::render_content(&absdoc::AContent::Text(r2.pick_str(&TEXTS).to_string()), &mut out, &mut cdata);
                last_text = true;
            } else {
                let e = absdoc::gen_elem(&mut r2, &cfg, &vec![], 1, &mut ids);
                absdoc::render_elem(&e, &mut out, &mut cdata);
                last_text = false;
            }
        }
        out
    } else {
        absdoc::render_doc(&d, rng.pct(20), &mut cdata)
    }
}

/// well-formedness-breaking edit of a text (subset of the C03 catalogue; the
/// full catalogue lives in the C03 driver)
pub fn damage_text(rng: &mut Rng, s: &str) -> String {
    let mut b: Vec<char> = s.chars().collect();
    if b.is_empty() {
        return "<".into();
    }
    // damage that a parser which has grown careless about uniqueness would let through: the tree
    // it then hands out has an attribute name or a prefix twice
    if s.starts_with('<') && !s.starts_with("<?") && !s.starts_with("<!") && rng.pct(30) {
        if let Some(i) = s.find(|c: char| c == '>' || c == '/' || c == ' ') {
            let ins = match rng.below(4) {
                0 => " xmlns:zx=\"http://www.w3.org/XML/1998/namespace\" zx:lang=\"a\" xml:lang=\"b\"".to_string(),
                1 => " xmlns:zq=\"urn:zz\" zq:k=\"1\" xmlns:zr=\"urn:zz\" zr:k=\"2\"".to_string(),
                2 => {
                    // (either order: whichever of the two prefixes the store met first, one of the
                    // orders has ids that do not ascend)
                    if rng.pct(50) {
                        // (the empty prefix has the lowest id of all)
                        " xmlns:zf=\"urn:1\" xmlns=\"urn:dd\" xmlns:zf=\"urn:3\"".to_string()
                    } else {
                        let (a, b2) = if rng.pct(50) { ("zf", "zd") } else { ("zd", "zf") };
                        format!(" xmlns:{}=\"urn:1\" xmlns:{}=\"urn:dd\" xmlns:{}=\"urn:3\"", a, b2, a)
                    }
                }
                _ => " zk=\"1\" zl=\"2\" zk=\"3\"".to_string(),
            };
            let mut t = s.to_string();
            t.insert_str(i, &ins);
            return t;
        }
    }
    match rng.below(6) {
        0 => {
            let cut = rng.below(b.len());
            b.truncate(cut);
        }
        1 => {
            if let Some(i) = b.iter().rposition(|c| *c == '>') {
                b.remove(i);
            }
        }
        2 => {
            let i = rng.below(b.len());
            b.insert(i, '<');
        }
        3 => {
            let i = rng.below(b.len());
            b.insert(i, '&');
        }
        4 => {
            b.extend("<extra/>".chars());
        }
        _ => {
            if let Some(i) = b.iter().position(|c| *c == '/') {
                b.remove(i);
            }
        }
    }
    b.into_iter().collect()
}

fn entry_mode(rng: &mut Rng) -> EntryMode {
    match rng.below(7) {
        0 => EntryMode::OrInsert,
        1 => EntryMode::OrInsertWith,
        2 => EntryMode::AndModifyOrInsert,
        3 => EntryMode::OrDefault,
        4 => EntryMode::OccupiedInsert,
        5 => EntryMode::OccupiedRemove,
        _ => EntryMode::Key,
    }
}

/// existing key of the element with some probability, else a pool key
/// namespace names bound to a non-empty prefix in scope at `e` (nearest binding per prefix)
pub fn scope_bound_uris(m: &Model, e: Lid) -> Vec<String> {
    let mut seen: Vec<String> = vec![];
    let mut out: Vec<String> = vec![];
    let mut cur = Some(e);
    while let Some(c) = cur {
        for nl in m.n(c).ns.iter() {
            if let crate::model::Kind::Ns(p, u) = &m.n(*nl).kind {
                if seen.contains(p) {
                    continue;
                }
                seen.push(p.clone());
                if !p.is_empty() && !u.is_empty() && !out.contains(u) {
                    out.push(u.clone());
                }
            }
        }
        cur = m.n(c).parent;
    }
    out
}

/// repair motifs (C10): repair a whole tree, add something in a namespace nobody declares below
/// a nested element, repair that element; or the same with a subtree moved away in between
pub fn gen_motif(m: &Model, rng: &mut Rng, home: &[Lid], representable: bool) -> Option<Vec<Op>> {
    let p = Picker::new(m, home, 50);
    if rng.pct(20) {
        // the xml prefix is bound (the API and the parser allow it) to a namespace that names below
        // really use: those names are then written xml:..., attributes called id / space among them;
        // a child may declare the built-in pair again and use it
        let e = p.of(rng, |l| m.k(l) == K::Elem)?;
        let mut used: Vec<String> = vec![];
        for l in m.subtree(e) {
            match &m.n(l).kind {
                crate::model::Kind::Elem(n) | crate::model::Kind::Attr(n, _) if !n.uri.is_empty() && n.uri != absdoc::XML_NS && !used.contains(&n.uri) => used.push(n.uri.clone()),
                _ => {}
            }
        }
        let uri = match rng.pick_opt(&used) {
            Some(u) => u.clone(),
            None => rng.pick_str(&URIS).to_string(),
        };
        let mut ops = vec![Op::NsInsert { e, prefix: "xml".into(), uri }];
        let kids: Vec<Lid> = m.n(e).kids.iter().copied().filter(|k| m.k(*k) == K::Elem).collect();
        if let Some(c) = rng.pick_opt(&kids) {
            if rng.pct(60) {
                ops.push(Op::NsInsert { e: *c, prefix: "xml".into(), uri: absdoc::XML_NS.into() });
                ops.push(Op::SetAttribute { e: *c, name: Nm::new(if rng.pct(50) { "space" } else { "lang" }, absdoc::XML_NS), value: "preserve".into() });
            }
        }
        ops.push(Op::CreateMissingPrefixes { n: m.root_of(e) });
        // ... and something below is copied out together with the prefixes it needs
        let below: Vec<Lid> = m.subtree(e).into_iter().filter(|l| *l != e && m.k(*l) == K::Elem).collect();
        if let Some(c) = rng.pick_opt(&below) {
            ops.push(Op::CloneWithPrefixes { n: *c });
        }
        return Some(ops);
    }
    if rng.pct(40) {
        // a deep, narrow tree is around: something in a namespace that only the element above the
        // deep part declares is added after that element, then the whole tree is repaired
        let depth = |l: Lid| {
            let mut d = 0usize;
            let mut cur = m.n(l).parent;
            while let Some(c) = cur {
                d += 1;
                cur = m.n(c).parent;
            }
            d
        };
        if let Some(deep) = p.live.iter().copied().find(|l| m.k(*l) == K::Elem && depth(*l) > 66) {
            // the ancestor two levels below the root of that tree, and its parent
            let mut chain = vec![deep];
            let mut cur = m.n(deep).parent;
            while let Some(c) = cur {
                chain.push(c);
                cur = m.n(c).parent;
            }
            let n = chain.len();
            if n >= 4 {
                let (top, holder) = (chain[n - 3], chain[n - 2]);
                let uris: Vec<String> = m.n(top).ns.iter().filter_map(|d| if let crate::model::Kind::Ns(_, u) = &m.n(*d).kind { Some(u.clone()) } else { None }).filter(|u| !u.is_empty()).collect();
                if let Some(u) = rng.pick_opt(&uris) {
                    if m.k(holder) == K::Elem {
                        return Some(vec![
                            Op::AppendElement { p: holder, name: Nm::new(rng.pick_str(&LOCALS), u) },
                            Op::CreateMissingPrefixes { n: m.root_of(deep) },
                        ]);
                    }
                }
            }
        }
    }
    if rng.pct(30) {
        // an element whose only declaration is the (legal, redundant) built-in pair, with content
        // after it that depends on the scope around it; then the tree is repaired and written
        let e = p.of(rng, |l| m.k(l) == K::Elem && m.n(l).ns.is_empty() && m.next_kid(l).is_some())?;
        let root = m.root_of(e);
        let mut ops = vec![Op::NsInsert { e, prefix: "xml".into(), uri: absdoc::XML_NS.into() }];
        if rng.pct(50) {
            let parent = m.n(e).parent?;
            ops.push(Op::AppendElement { p: parent, name: Nm::new(rng.pick_str(&LOCALS), rng.pick_str(&URIS)) });
        }
        ops.push(Op::CreateMissingPrefixes { n: root });
        return Some(ops);
    }
    let e = p.of(rng, |l| m.k(l) == K::Elem && m.n(l).parent.is_some() && m.n(l).kids.iter().any(|k| m.k(*k) == K::Elem))?;
    let root = m.root_of(e);
    let mut fresh = Nm::new(rng.pick_str(&LOCALS), rng.pick_str(&URIS));
    if !representable && rng.pct(15) {
        // a name in the namespace reserved for declarations (the API lets it be built)
        fresh = Nm::new(rng.pick_str(&["p", "a"]), "http://www.w3.org/2000/xmlns/");
    }
    let mut ops = vec![Op::CreateMissingPrefixes { n: root }];
    match rng.below(3) {
        0 => ops.push(Op::AppendElement { p: e, name: fresh }),
        1 => ops.push(Op::SetAttribute { e, name: fresh, value: "v".into() }),
        _ => {
            let kid = *rng.pick(&m.n(e).kids);
            ops.push(Op::AppendElement { p: if m.k(kid) == K::Elem { kid } else { e }, name: fresh });
        }
    }
    ops.push(Op::CreateMissingPrefixes { n: e });
    if rng.pct(40) {
        ops.push(Op::CreateMissingPrefixes { n: root });
    }
    Some(ops)
}

/// redundant declarations: an element declares two more prefixes for a namespace that is bound
/// in its scope already, then the tree is de-duplicated
pub fn gen_redundant_decl_motif(m: &Model, rng: &mut Rng, home: &[Lid]) -> Option<Vec<Op>> {
    let p = Picker::new(m, home, 50);
    let e = p.of(rng, |l| m.k(l) == K::Elem && m.n(l).parent.map_or(false, |q| m.k(q) == K::Elem))?;
    let bound = scope_bound_uris(m, m.n(e).parent.unwrap());
    let uri = rng.pick_opt(&bound)?.clone();
    let mut ops = vec![];
    let mut prefixes: Vec<&str> = PREFIXES.to_vec();
    let i = rng.below(prefixes.len());
    let first = prefixes.remove(i);
    let second = *rng.pick(&prefixes);
    ops.push(Op::NsInsert { e, prefix: first.to_string(), uri: uri.clone() });
    ops.push(if rng.pct(50) { Op::SetNamespace { e, prefix: second.to_string(), uri: uri.clone() } } else { Op::NsInsert { e, prefix: second.to_string(), uri: uri.clone() } });
    if rng.pct(30) {
        ops.push(Op::NsInsert { e, prefix: String::new(), uri });
    }
    ops.push(Op::DeduplicateNamespaces { n: if rng.pct(70) { m.root_of(e) } else { m.n(e).parent.unwrap() } });
    Some(ops)
}

/// whitespace handling meets an xml:space value that is neither of the two it knows, with
/// whitespace-only text below it
pub fn gen_space_motif(m: &Model, rng: &mut Rng, home: &[Lid]) -> Option<Vec<Op>> {
    let p = Picker::new(m, home, 50);
    let e = p.kind(rng, K::Elem)?;
    let name = Nm::new("space", absdoc::XML_NS);
    let mut ops = vec![Op::SetAttribute { e, name, value: rng.pick_str(&["yes", "", "Preserve", "preserve", "default", "default "]).to_string() }];
    ops.push(Op::AppendText { p: e, s: rng.pick_str(&[" ", "  \n ", "\t"]).to_string() });
    if rng.pct(50) {
        ops.push(Op::AppendElement { p: e, name: gen_name(rng) });
        ops.push(Op::AppendText { p: e, s: " ".to_string() });
    }
    ops.push(Op::RemoveInsignificantWhitespace { n: if rng.pct(60) { m.root_of(e) } else { e } });
    Some(ops)
}

/// the text node before an element that stands between two text nodes becomes empty (length 0 is
/// a legal length), then the element is unwrapped, moved behind the later text, or removed: the
/// merges that this causes have an empty survivor to deal with
pub fn gen_empty_text_motif(m: &Model, rng: &mut Rng, home: &[Lid]) -> Option<Vec<Op>> {
    let p = Picker::new(m, home, 50);
    let a = p.of(rng, |l| {
        m.kid_index(l).map_or(false, |(par, i)| {
            let sibs = &m.n(par).kids;
            m.k(l) != K::Text && i > 0 && i + 1 < sibs.len() && m.k(sibs[i - 1]) == K::Text && m.k(sibs[i + 1]) == K::Text
        })
    })?;
    let (par, i) = m.kid_index(a)?;
    let (before, after) = (m.n(par).kids[i - 1], m.n(par).kids[i + 1]);
    let mut ops = vec![Op::TextSet { n: before, s: String::new() }];
    ops.push(match rng.below(5) {
        0 if m.k(a) == K::Elem => Op::Unwrap { n: a },
        1 => Op::InsertAfter { r: after, c: a },
        2 => Op::Remove { n: a },
        3 => Op::Detach { n: a },
        _ => Op::Append { p: par, c: a },
    });
    Some(ops)
}

/// another client builds text from pieces: consolidation off, two or three text nodes next to each
/// other, consolidation on again — the store then holds adjacent text nodes while consolidation
/// is on, and every later call meets that state
pub fn gen_split_text_motif(m: &Model, rng: &mut Rng, home: &[Lid]) -> Option<Vec<Op>> {
    if !m.cons {
        return None;
    }
    let p = Picker::new(m, home, 50);
    let e = p.container(rng)?;
    let mut ops = vec![Op::SetConsolidation { on: false }];
    for _ in 0..rng.range(2, 3) {
        ops.push(Op::AppendText { p: e, s: gen_text(rng) });
    }
    if rng.pct(30) {
        if let Some(e2) = p.kind(rng, K::Elem) {
            ops.push(Op::AppendText { p: e2, s: gen_text(rng) });
            ops.push(Op::AppendText { p: e2, s: gen_text(rng) });
        }
    }
    ops.push(Op::SetConsolidation { on: true });
    Some(ops)
}

fn attr_key(m: &Model, e: Lid, rng: &mut Rng) -> Nm {
    if rng.pct(25) {
        // a name in a namespace that has a usable prefix in scope: the element stays serialisable
        let bound = scope_bound_uris(m, e);
        if let Some(u) = rng.pick_opt(&bound) {
            return Nm::new(rng.pick_str(&LOCALS), u);
        }
    }
    if rng.pct(6) {
        // the built-in names get special treatment in places
        return Nm::new(if rng.pct(70) { "id" } else { "space" }, "http://www.w3.org/XML/1998/namespace");
    }
    let attrs = &m.n(e).attrs;
    if !attrs.is_empty() && rng.pct(55) {
        if let crate::model::Kind::Attr(n, _) = &m.n(*rng.pick(attrs)).kind {
            return n.clone();
        }
    }
    gen_name(rng)
}
fn ns_key(m: &Model, e: Lid, rng: &mut Rng) -> String {
    let ns = &m.n(e).ns;
    if !ns.is_empty() && rng.pct(55) {
        if let crate::model::Kind::Ns(p, _) = &m.n(*rng.pick(ns)).kind {
            return p.clone();
        }
    }
    gen_prefix(rng)
}

pub fn gen_op(m: &Model, rng: &mut Rng, prof: &Profile, home: &[Lid]) -> Op {
    for _ in 0..20 {
        if let Some(op) = try_gen_op(m, rng, prof, home) {
            return op;
        }
    }
    Op::NewElement { name: gen_name(rng) }
}

fn try_gen_op(m: &Model, rng: &mut Rng, prof: &Profile, home: &[Lid]) -> Option<Op> {
    let p = Picker::new(m, home, prof.locality_pct);
    let n_live = p.live.len();
    if prof.flip_pm > 0 && rng.ratio(prof.flip_pm as u64, 1000) {
        return Some(Op::SetConsolidation { on: !m.cons });
    }
    let mut w = [
        prof.w_create,
        prof.w_parse,
        prof.w_move,
        prof.w_remove,
        prof.w_replace,
        prof.w_wrap,
        prof.w_clone,
        prof.w_map,
        prof.w_special_node,
        prof.w_value,
        prof.w_convenience,
        prof.w_storewide,
    ];
    if n_live >= prof.max_nodes {
        w[0] = 0;
        w[1] = 0;
        w[6] = 0;
        w[3] = w[3] * 4 + 10;
    }
    if n_live < 4 {
        w[0] += 10;
        w[1] += 5;
    }
    let fault = rng.pct(prof.fault_pct);
    match rng.weighted(&w) {
        0 => Some(match rng.below(10) {
            0 => Op::NewDocument,
            1 | 2 | 3 => Op::NewElement { name: gen_name(rng) },
            4 | 5 => Op::NewText { s: gen_text(rng) },
            6 => Op::NewComment { s: if rng.pct(8) && !prof.representable_ns_only { "a--b".to_string() } else if rng.pct(6) { rng.pick_str(&STRADDLING).to_string() } else { rng.pick(&COMMENTS).to_string() } },
            7 => Op::NewPI {
                target: pi_target(rng, prof),
                data: pi_data(rng, prof),
            },
            8 => Op::NewAttr { name: gen_name(rng), value: rng.pick_str(&ATTR_VALUES[..8]).to_string() },
            _ => {
                // only the default namespace can be undeclared: a non-empty prefix is never
                // bound to the empty namespace name (such a node has no XML representation)
                let prefix = gen_prefix(rng);
                let uri = if prefix.is_empty() || !prof.representable_ns_only { gen_uri(rng) } else { rng.pick_str(&URIS).to_string() };
                if rng.pct(4) {
                    // the built-in pair, declared explicitly
                    return Some(Op::NewNs { prefix: "xml".into(), uri: absdoc::XML_NS.into() });
                }
                Op::NewNs { prefix, uri }
            }
        }),
        1 if rng.pct(15) => {
            // the same kind of tree through the `fixed` helper structures; their vectors may repeat
            // an attribute name or a prefix and hold text in adjacent pieces
            let cfg = GenCfg::swarm(rng);
            let mut e = absdoc::gen_elem(rng, &cfg, &vec![], 1, &mut 200);
            fn dup(e: &mut absdoc::AElem, rng: &mut Rng) {
                if !e.attrs.is_empty() && rng.pct(35) {
                    let mut a = rng.pick(&e.attrs).clone();
                    a.2 = rng.pick_str(&ATTR_VALUES[..8]).to_string();
                    let at = rng.below(e.attrs.len() + 1);
                    e.attrs.insert(at, a);
                }
                if !e.decls.is_empty() && rng.pct(35) {
                    let mut d = rng.pick(&e.decls).clone();
                    if rng.pct(50) {
                        d.1 = rng.pick_str(&URIS).to_string();
                    }
                    let at = rng.below(e.decls.len() + 1);
                    e.decls.insert(at, d);
                }
                for k in e.kids.iter_mut() {
                    if let absdoc::AContent::Elem(c) = k {
                        dup(c, rng);
                    }
                }
            }
            dup(&mut e, rng);
            Some(Op::Xotify { e, document: rng.pct(40), split: rng.pct(50) })
        }
        1 => {
            let fragment = rng.pct(35);
            let mut text = gen_xml_text(rng, fragment);
            if rng.pct(prof.parse_fail_pct) {
                text = damage_text(rng, &text);
            }
            let kind = if fragment {
                if rng.pct(20) {
                    ParseKind::FragmentSpan
                } else {
                    ParseKind::Fragment
                }
            } else {
                match rng.below(10) {
                    0 | 1 => ParseKind::Bytes,
                    2 => ParseKind::DocSpan,
                    _ => ParseKind::Doc,
                }
            };
            Some(Op::Parse { text, kind })
        }
        2 => {
            let which = rng.below(6);
            if which == 5 {
                // moving an (attached) element out into a fresh document is a move as well
                let e = if fault { p.any(rng)? } else { p.kind(rng, K::Elem)? };
                return Some(Op::NewDocWithElement { n: e });
            }
            if fault {
                let mut a = p.any(rng)?;
                let mut b = p.any(rng)?;
                if rng.pct(35) {
                    // the cycle refusals: the moved node is an ancestor of (or is) the destination; half of
                    // the time a node flanked by text on both sides, where a premature detach would show
                    let flanked = |l: Lid| {
                        m.kid_index(l).map_or(false, |(par, i)| {
                            let sibs = &m.n(par).kids;
                            i > 0 && i + 1 < sibs.len() && m.k(sibs[i - 1]) == K::Text && m.k(sibs[i + 1]) == K::Text
                        })
                    };
                    let anc = if rng.pct(50) { p.of(rng, |l| m.k(l) == K::Elem && flanked(l)) } else { None };
                    if let Some(anc) = anc.or_else(|| p.of(rng, |l| m.k(l) == K::Elem && !m.n(l).kids.is_empty())) {
                        let below: Vec<Lid> = m.subtree(anc).into_iter().filter(|l| m.exists_live(*l)).collect();
                        b = anc;
                        a = *rng.pick(&below);
                        if which == 2 || which == 3 {
                            // sibling-style calls: the reference lies inside the moved node
                            if a == anc {
                                a = *rng.pick(&below);
                            }
                        }
                    }
                }
                return Some(match which {
                    0 => Op::Append { p: a, c: b },
                    1 => Op::Prepend { p: a, c: b },
                    2 => Op::InsertAfter { r: a, c: b },
                    3 => Op::InsertBefore { r: a, c: b },
                    _ => Op::AnyAppend { p: a, c: b },
                });
            }
            match which {
                0 | 4 => {
                    let (a, b) = pick_move_pair(&p, rng, false)?;
                    Some(if which == 0 { Op::Append { p: a, c: b } } else { Op::AnyAppend { p: a, c: b } })
                }
                1 => {
                    let (a, b) = pick_move_pair(&p, rng, false)?;
                    Some(Op::Prepend { p: a, c: b })
                }
                2 => {
                    let (a, b) = pick_move_pair(&p, rng, true)?;
                    Some(Op::InsertAfter { r: a, c: b })
                }
                _ => {
                    let (a, b) = pick_move_pair(&p, rng, true)?;
                    Some(Op::InsertBefore { r: a, c: b })
                }
            }
        }
        3 => {
            let n = if fault { p.any(rng)? } else { p.of(rng, |l| m.k(l) != K::Doc || rng_free_doc(m, l))? };
            Some(if rng.pct(50) { Op::Remove { n } } else { Op::Detach { n } })
        }
        4 => {
            if fault {
                return Some(Op::Replace { old: p.any(rng)?, new: p.any(rng)? });
            }
            let old = p.attached_normal(rng)?;
            let new = if rng.pct(40) {
                p.of(rng, |l| m.n(l).parent.is_none() && m.k(l) != K::Doc)?
            } else {
                p.normal_nondoc(rng)?
            };
            Some(Op::Replace { old, new })
        }
        5 => {
            if rng.pct(50) {
                let n = if fault { p.any(rng)? } else { p.normal_nondoc(rng)? };
                Some(Op::Wrap { n, name: gen_name(rng) })
            } else {
                let n = if fault { p.any(rng)? } else { p.kind(rng, K::Elem)? };
                Some(Op::Unwrap { n })
            }
        }
        6 => {
            let n = p.any(rng)?;
            if m.subtree(n).len() + n_live > prof.max_nodes + 20 {
                return None;
            }
            if rng.pct(40) {
                // a nested element whose ancestors declare something: the case clone_with_prefixes is for
                // (half of the time one with several element children: names that recur in the subtree)
                let several = rng.pct(50);
                if let Some(e) = p.of(rng, |l| {
                    m.k(l) == K::Elem
                        && m.n(l).parent.map(|a| !scope_bound_uris(m, a).is_empty()).unwrap_or(false)
                        && (!several || m.n(l).kids.iter().filter(|k| m.k(**k) == K::Elem).count() >= 2)
                }) {
                    return Some(Op::CloneWithPrefixes { n: e });
                }
            }
            Some(if rng.pct(70) { Op::CloneNode { n } } else { Op::CloneWithPrefixes { n } })
        }
        7 => {
            let e = p.kind(rng, K::Elem)?;
            Some(if rng.pct(60) {
                let mut name = attr_key(m, e, rng);
                if !prof.representable_ns_only && rng.pct(4) {
                    // a name in the namespace reserved for declarations: the API lets it be built,
                    // XML cannot express it
                    name = Nm::new(rng.pick_str(&["p", "a", "xmlns"]), "http://www.w3.org/2000/xmlns/");
                }
                // now and then an update that writes the value the key already has
                let same_value = m.n(e).attrs.iter().find_map(|a| match &m.n(*a).kind {
                    crate::model::Kind::Attr(n, v) if *n == name => Some(v.clone()),
                    _ => None,
                });
                // (leading / trailing / doubled spaces: an xml:id with such a value does not survive
                // a reparse, so C10's profile leaves them out)
                let value = if rng.pct(10) && !prof.representable_ns_only { rng.pick_str(&[" v", "v ", "a  b", " a  b "]).to_string() } else { rng.pick_str(&ATTR_VALUES[..8]).to_string() };
                let value = if rng.pct(3) { rng.pick_str(&STRADDLING).to_string() } else { value };
                // (nothing validates the value of xml:space: whitespace handling meets values other than
                // the two it knows)
                let value = if name.local == "space" && name.uri == absdoc::XML_NS && rng.pct(60) { rng.pick_str(&["yes", "", "Preserve", "preserve ", "default"]).to_string() } else { value };
                let value = match same_value {
                    Some(v) if rng.pct(20) => v,
                    _ => value,
                };
                if rng.pct(12) {
                    // 2-4 updates through one view object; biased to keys that exist, then new ones
                    // 2-5 calls through one view object; keys that exist are preferred, so that updates,
                    // look-ups before and after a removal or a clear, and re-insertions occur
                    let mut items = vec![if rng.pct(80) { ViewStep::Insert(name.clone(), value) } else { ViewStep::Get(name.clone()) }];
                    for _ in 0..rng.range(1, 4) {
                        let k = if rng.pct(40) { name.clone() } else { attr_key(m, e, rng) };
                        let step = match rng.below(100) {
                            0..=49 => ViewStep::Insert(k, rng.pick_str(&ATTR_VALUES[..8]).to_string()),
                            50..=69 => ViewStep::Remove(k),
                            70..=79 => {
                                // after a clear the same view is used on: the key comes back, twice
                                items.push(ViewStep::Clear);
                                items.push(ViewStep::Insert(k.clone(), rng.pick_str(&ATTR_VALUES[..8]).to_string()));
                                ViewStep::Insert(k, rng.pick_str(&ATTR_VALUES[..8]).to_string())
                            }
                            _ => ViewStep::Get(k),
                        };
                        items.push(step);
                    }
                    return Some(Op::AttrBatch { e, items });
                }
                match rng.below(8) {
                    0 | 1 => Op::AttrInsert { e, name, value },
                    2 => Op::AttrRemove { e, name },
                    3 => Op::AttrGetMutSet { e, name, value },
                    4 => {
                        if rng.pct(30) {
                            Op::AttrClear { e }
                        } else {
                            Op::SetAttribute { e, name, value }
                        }
                    }
                    5 => Op::RemoveAttribute { e, name },
                    _ => Op::AttrEntry { e, name, mode: entry_mode(rng), value },
                }
            } else {
                let mut prefix = ns_key(m, e, rng);
                let mut uri = if !prof.representable_ns_only && rng.pct(8) { String::new() } else { rng.pick(&URIS).to_string() };
                if rng.pct(4) {
                    // the built-in pair, declared (or removed again) explicitly
                    prefix = "xml".into();
                    // (the API lets the prefix be bound to something else as well; names in that
                    // namespace below are then written with it)
                    uri = if rng.pct(30) { rng.pick_str(&URIS).to_string() } else { absdoc::XML_NS.into() };
                }
                if rng.pct(12) {
                    let mut items = vec![if rng.pct(80) { ViewStep::Insert(prefix.clone(), uri) } else { ViewStep::Get(prefix.clone()) }];
                    for _ in 0..rng.range(1, 4) {
                        let k = if rng.pct(40) { prefix.clone() } else { ns_key(m, e, rng) };
                        let step = match rng.below(100) {
                            0..=49 => ViewStep::Insert(k, rng.pick(&URIS).to_string()),
                            50..=69 => ViewStep::Remove(k),
                            70..=79 => {
                                items.push(ViewStep::Clear);
                                items.push(ViewStep::Insert(k.clone(), rng.pick(&URIS).to_string()));
                                ViewStep::Insert(k, rng.pick(&URIS).to_string())
                            }
                            _ => ViewStep::Get(k),
                        };
                        items.push(step);
                    }
                    return Some(Op::NsBatch { e, items });
                }
                match rng.below(8) {
                    0 | 1 => Op::NsInsert { e, prefix, uri },
                    2 => Op::NsRemove { e, prefix },
                    3 => Op::NsGetMutSet { e, prefix, uri },
                    4 => {
                        if rng.pct(30) {
                            Op::NsClear { e }
                        } else {
                            Op::SetNamespace { e, prefix, uri }
                        }
                    }
                    5 => {
                        if rng.pct(50) {
                            Op::RemoveNamespace { e, prefix }
                        } else {
                            // (also on nodes that cannot carry a declaration: must be refused)
                            Op::AppendNamespace { p: if fault { p.any(rng)? } else { e }, prefix, uri }
                        }
                    }
                    _ => Op::NsEntry { e, prefix, mode: entry_mode(rng), uri },
                }
            })
        }
        8 => {
            // node-style attribute / namespace handling
            let attr = rng.pct(55);
            let k = if attr { K::Attr } else { K::Ns };
            let c = if fault { p.any(rng)? } else { p.kind(rng, k)? };
            match rng.below(6) {
                0 | 1 | 2 => {
                    // re-appending a node to the element it already sits on is a case of its own
                    let own = m.n(c).parent.filter(|_| rng.pct(30));
                    let pe = match own {
                        Some(o) => o,
                        None => {
                            if fault {
                                p.any(rng)?
                            } else {
                                p.kind(rng, K::Elem)?
                            }
                        }
                    };
                    Some(match rng.below(3) {
                        0 => Op::AnyAppend { p: pe, c },
                        _ => {
                            if attr {
                                Op::AppendAttrNode { p: pe, c }
                            } else {
                                Op::AppendNsNode { p: pe, c }
                            }
                        }
                    })
                }
                3 => Some(Op::Detach { n: c }),
                4 => Some(Op::Remove { n: c }),
                _ => {
                    // attribute / namespace node as a reference or moved node of a structure call
                    let other = p.any(rng)?;
                    Some(match rng.below(4) {
                        0 => Op::InsertAfter { r: c, c: other },
                        1 => Op::InsertBefore { r: c, c: other },
                        2 => Op::Append { p: other, c },
                        _ => Op::Replace { old: c, new: other },
                    })
                }
            }
        }
        9 => {
            let n = p.any(rng)?;
            Some(match m.k(n) {
                K::Elem => {
                    if rng.pct(50) {
                        Op::SetElementName { e: n, name: gen_name(rng) }
                    } else {
                        Op::TextContentSet { n, s: gen_text(rng) }
                    }
                }
                K::Text => Op::TextSet { n, s: gen_text(rng) },
                K::Comment => Op::CommentSet {
                    n,
                    s: if rng.pct(15) { "a--b".to_string() } else { rng.pick(&COMMENTS).to_string() },
                },
                K::PI => {
                    if rng.pct(50) {
                        Op::PISetData { n, data: if rng.pct(70) { Some(rng.pick(&PI_DATA).to_string()) } else { None } }
                    } else {
                        Op::PISetTarget { n, target: pi_target(rng, prof) }
                    }
                }
                K::Attr => Op::AttrNodeSetValue { n, value: rng.pick_str(&ATTR_VALUES[..8]).to_string() },
                K::Ns => Op::NsNodeSetNamespace { n, uri: rng.pick(&URIS).to_string() },
                K::Doc => Op::TextContentSet { n, s: gen_text(rng) },
            })
        }
        10 => {
            let pn = if fault { p.any(rng)? } else { p.container(rng)? };
            Some(match rng.below(5) {
                0 | 1 => Op::AppendText { p: pn, s: gen_text(rng) },
                2 => Op::AppendElement { p: pn, name: gen_name(rng) },
                3 => Op::AppendComment { p: pn, s: if rng.pct(12) && !prof.representable_ns_only { "a--b".to_string() } else { rng.pick(&COMMENTS).to_string() } },
                _ => Op::AppendPI {
                    p: pn,
                    target: pi_target(rng, prof),
                    data: pi_data(rng, prof),
                },
            })
        }
        _ => {
            let n = p.any(rng)?;
            Some(match rng.below(10) {
                0 => Op::RemoveInsignificantWhitespace { n },
                1 => Op::DeduplicateNamespaces { n },
                2 => {
                    let e = p.kind(rng, K::Elem)?;
                    Op::NewDocWithElement { n: e }
                }
                3 => Op::CreateMissingPrefixes { n },
                4 | 5 | 6 => {
                    // repair a whole tree
                    let r = m.root_of(n);
                    Op::CreateMissingPrefixes { n: r }
                }
                _ => {
                    // repair a nested element (one that has element children, if possible)
                    let e = p
                        .of(rng, |l| m.k(l) == K::Elem && m.n(l).parent.is_some() && m.n(l).kids.iter().any(|k| m.k(*k) == K::Elem))
                        .or_else(|| p.kind(rng, K::Elem))?;
                    Op::CreateMissingPrefixes { n: e }
                }
            })
        }
    }
}

fn rng_free_doc(_m: &Model, _l: Lid) -> bool {
    // document roots may be removed/detached too (remove frees the whole tree)
    true
}
