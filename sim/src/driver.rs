//! Generic batch driver: seeds, workers, known-finding probes, minimisation,
//! replay files, evidence.

use crate::known::KnownFile;
use crate::rng::mix;
use crate::stats::Stats;
use crate::world::Violation;
use serde_json::{json, Value};
use std::sync::atomic::{AtomicBool, AtomicU64, Ordering};
use std::sync::{Arc, Mutex};
use std::time::{Duration, Instant};

pub struct EngineFailure {
    pub violation: Violation,
    /// engine-specific replay value (already minimised or not)
    pub replay: Value,
}

pub trait PropEngine: Sync + Send {
    fn id(&self) -> &'static str;
    fn level(&self) -> &'static str;
    fn default_runs(&self, thorough: bool) -> u64;
    fn run_one(&self, run_index: u64, run_seed: u64, known: &KnownFile, stats: &mut Stats) -> Option<EngineFailure>;
    fn minimise(&self, f: EngineFailure, known: &KnownFile) -> EngineFailure;
    /// replay an engine-specific value; first uncovered violation of this property
    fn replay(&self, replay: &Value, known: &KnownFile, stats: &mut Stats) -> Option<Violation>;
    fn rule(&self) -> String;
    fn assumptions(&self) -> Vec<String>;
    /// extra coverage keys derived from the merged statistics
    fn coverage_extra(&self, _stats: &Stats) -> Value {
        json!({})
    }
    /// optional deterministic (non-seeded) part run once per batch, e.g. complete
    /// enumeration of a small space; counted into stats
    fn fixed_part(&self, _thorough: bool, _known: &KnownFile, _stats: &mut Stats) -> Option<EngineFailure> {
        None
    }
    fn nontrivial_key(&self) -> &'static str {
        "nontrivial_traces"
    }
}

pub fn verif_root() -> String {
    std::env::var("VERIF_ROOT").unwrap_or_else(|_| "/verif".to_string())
}

pub fn prop_salt(id: &str) -> u64 {
    let mut h = crate::rng::Fnv::new();
    h.str(id);
    h.0
}

thread_local! {
    /// set while a call into the real library runs under catch_unwind
    pub static IN_REAL: std::cell::Cell<bool> = std::cell::Cell::new(false);
}

/// Panics inside the real library (under catch_unwind) are silent and judged
/// by the oracles; a panic anywhere else is a harness error: exit 2.
pub fn install_quiet_panic_hook() {
    let default = std::panic::take_hook();
    std::panic::set_hook(Box::new(move |info| {
        let in_real = IN_REAL.with(|f| f.get());
        let msg = if let Some(s) = info.payload().downcast_ref::<&str>() {
            s.to_string()
        } else if let Some(s) = info.payload().downcast_ref::<String>() {
            s.clone()
        } else {
            String::new()
        };
        if !in_real || msg.starts_with("harness") {
            default(info);
            eprintln!("harness error: panic outside the library under test");
            std::process::exit(2);
        }
    }));
}

pub fn real_call<T>(f: impl FnOnce() -> T) -> std::thread::Result<T> {
    let prev = IN_REAL.with(|x| x.replace(true));
    let r = std::panic::catch_unwind(std::panic::AssertUnwindSafe(f));
    IN_REAL.with(|x| x.set(prev));
    r
}

pub struct BatchResult {
    pub stats: Stats,
    pub failure: Option<(u64, EngineFailure)>,
    pub wall_s: f64,
}

/// Run `runs` seeded simulations on `jobs` workers. Results are merged
/// commutatively; the reported failure is the one with the lowest run index.
pub fn run_batch(engine: &dyn PropEngine, seed: u64, runs: u64, jobs: usize, known: &KnownFile, thorough: bool) -> BatchResult {
    let start = Instant::now();
    let next = AtomicU64::new(0);
    let stop = AtomicBool::new(false);
    let merged: Mutex<Stats> = Mutex::new(Stats::default());
    let failure: Mutex<Option<(u64, EngineFailure)>> = Mutex::new(None);
    let salt = prop_salt(engine.id());
    // watchdog state: per worker (run index, start time)
    let current: Vec<Arc<Mutex<(u64, Instant)>>> =
        (0..jobs).map(|_| Arc::new(Mutex::new((u64::MAX, Instant::now())))).collect();
    let done = AtomicBool::new(false);
    let hang_limit = Duration::from_secs(
        std::env::var("XOTSIM_HANG_SECS").ok().and_then(|s| s.parse().ok()).unwrap_or(if thorough { 600 } else { 120 }),
    );

    // fixed part first (single-threaded, deterministic)
    {
        let mut st = Stats::default();
        crate::hashseam::reseed(mix(seed, salt, 0xf1ed));
        if let Some(f) = engine.fixed_part(thorough, known, &mut st) {
            *failure.lock().unwrap() = Some((u64::MAX - 1, f));
            stop.store(true, Ordering::SeqCst);
        }
        merged.lock().unwrap().merge(st);
    }

    std::thread::scope(|s| {
        for j in 0..jobs {
            let cur = current[j].clone();
            let next = &next;
            let stop = &stop;
            let merged = &merged;
            let failure = &failure;
            s.spawn(move || {
                let mut local = Stats::default();
                loop {
                    if stop.load(Ordering::SeqCst) {
                        break;
                    }
                    let i = next.fetch_add(1, Ordering::SeqCst);
                    if i >= runs {
                        break;
                    }
                    *cur.lock().unwrap() = (i, Instant::now());
                    let run_seed = mix(seed, salt, i);
                    if let Some(f) = engine.run_one(i, run_seed, known, &mut local) {
                        let mut g = failure.lock().unwrap();
                        let better = match &*g {
                            Some((idx, _)) => i < *idx,
                            None => true,
                        };
                        if better {
                            *g = Some((i, f));
                        }
                        stop.store(true, Ordering::SeqCst);
                    }
                }
                *cur.lock().unwrap() = (u64::MAX, Instant::now());
                merged.lock().unwrap().merge(local);
            });
        }
        // watchdog (the only wall clock in the harness)
        let current = &current;
        let done = &done;
        let next = &next;
        let stop = &stop;
        let id = engine.id();
        s.spawn(move || loop {
            if done.load(Ordering::SeqCst) {
                break;
            }
            std::thread::sleep(Duration::from_millis(200));
            let mut all_idle = true;
            for c in current.iter() {
                let (i, t) = *c.lock().unwrap();
                if i != u64::MAX {
                    all_idle = false;
                    if t.elapsed() > hang_limit {
                        let path = format!("{}/replays/{}-hang-{}-{}.json", verif_root(), id, seed, i);
                        let _ = std::fs::create_dir_all(format!("{}/replays", verif_root()));
                        let v = json!({"property": id, "class": "hang", "seed": seed, "run_index": i,
                            "message": format!("run {} did not finish within {:?}", i, hang_limit),
                            "engine": id, "mode": "seeded", "expect": {"property": id, "class": "hang"}});
                        let _ = std::fs::write(&path, serde_json::to_string_pretty(&v).unwrap());
                        println!("VIOLATION property={} replay={}", id, path);
                        std::process::exit(1);
                    }
                }
            }
            if all_idle && next.load(Ordering::SeqCst) >= runs {
                break;
            }
            if stop.load(Ordering::SeqCst) && all_idle {
                break;
            }
        });
        // scoped threads join at end of scope; tell the watchdog
        // (workers finish on their own; watchdog exits when all idle)
        let _ = &done;
    });
    done.store(true, Ordering::SeqCst);
    let stats = merged.into_inner().unwrap();
    let failure = failure.into_inner().unwrap();
    BatchResult { stats, failure, wall_s: start.elapsed().as_secs_f64() }
}

pub fn write_evidence(
    engine: &dyn PropEngine,
    tier: &str,
    seed: u64,
    res: &BatchResult,
    violations: u64,
    known_lines: &[String],
) {
    let st = &res.stats;
    let nontrivial = st.set_len(engine.nontrivial_key());
    let samples: Vec<Value> = st.samples.values().cloned().collect();
    let samples = if samples.is_empty() { vec![json!("no sample recorded")] } else { samples };
    let mut coverage = json!({
        "evaluations": st.runs.max(1),
        "distinct_nontrivial": nontrivial,
        "rule": engine.rule(),
        "samples": samples,
        "states": st.set_len("states"),
        "transitions": st.steps,
        "runs": st.runs,
        "logical_steps": st.steps,
        "runs_per_hour": if res.wall_s > 0.0 { (st.runs as f64 / res.wall_s * 3600.0) as u64 } else { 0 },
        "simulated_time": "none: xot has no clock; progress is counted in logical steps",
        "distinct_classification_cells_x_outcome": st.set_len("cells"),
        "faults_fired": st.counters_with_prefix("fault/"),
        "operations_by_outcome": st.counters_with_prefix("op/"),
        "reach_probes": st.counters_with_prefix("probe/"),
        "enumeration": st.counters_with_prefix("enumeration/"),
        "swarm": st.counters_with_prefix("swarm/"),
        "known_finding_hits": st.counters_with_prefix("known_finding_hits/"),
        "known_finding_lines": known_lines,
        "other_property_violations_seen_and_discarded": st.counters_with_prefix("other_property_violation/"),
        "accepted_though_model_refuses": st.counters_with_prefix("accepted_though_model_refuses/"),
        "unexpected_refusals": st.get("unexpected_refusal"),
        "determinism_fingerprint": format!("{:016x}", st.digest),
        "components": {
            "real": ["xot (all of /repo/src, rebuilt from the working tree)", "indextree", "xmlparser", "encoding_rs", "xhtmlchardet", "genawaiter", "ahash hashing"],
            "replaced_via_public_seam": ["ahash seed source (set_random_source, no-rng build)"],
            "stubbed": ["clients (seeded scripts)", "scheduler", "Write sinks", "documents at rest (byte vectors with a fault layer)"]
        }
    });
    if let (Some(c), Value::Object(extra)) = (coverage.as_object_mut(), engine.coverage_extra(st)) {
        for (k, v) in extra {
            c.insert(k, v);
        }
    }
    let ev = json!({
        "property_id": engine.id(),
        "tier": tier,
        "seed": seed,
        "level": engine.level(),
        "coverage": coverage,
        "assumptions": engine.assumptions(),
        "wall_s": res.wall_s,
        "violations": violations,
    });
    let dir = format!("{}/evidence", verif_root());
    let _ = std::fs::create_dir_all(&dir);
    let path = format!("{}/{}.json", dir, engine.id());
    if let Err(e) = std::fs::write(&path, serde_json::to_string_pretty(&ev).unwrap()) {
        eprintln!("harness error: cannot write {}: {}", path, e);
        std::process::exit(2);
    }
}

/// run the probe of every open finding of this property; print KNOWN-FINDING
/// lines for those that still reproduce
pub fn probe_known(engine: &dyn PropEngine, known: &KnownFile) -> Vec<String> {
    let mut lines = vec![];
    let empty = KnownFile::default();
    for f in known.open_for(engine.id()) {
        if f.probe.is_null() {
            let l = format!("KNOWN-FINDING: property={} {} [{}] (no probe; matched by trigger class)", f.property, f.what, f.id);
            println!("{}", l);
            lines.push(l);
            continue;
        }
        let mut st = Stats::default();
        let v = engine.replay(&f.probe, &empty, &mut st);
        match v {
            Some(v) if v.class == f.class => {
                let l = format!("KNOWN-FINDING: property={} {} [{}]", f.property, f.what, f.id);
                println!("{}", l);
                lines.push(l);
            }
            Some(v) => {
                eprintln!(
                    "note: probe of known finding {} now fails differently: {}:{} {}",
                    f.id, v.property, v.class, v.msg
                );
            }
            None => {
                eprintln!("note: known finding {} no longer reproduces (probe passes)", f.id);
            }
        }
    }
    lines
}

pub fn write_replay_file(engine: &dyn PropEngine, seed: u64, run_index: u64, f: &EngineFailure) -> String {
    let dir = format!("{}/replays", verif_root());
    let _ = std::fs::create_dir_all(&dir);
    let body = serde_json::to_string(&f.replay).unwrap();
    let mut h = crate::rng::Fnv::new();
    h.str(&body);
    let path = format!("{}/{}-{}-{:08x}.json", dir, engine.id(), seed, (h.0 & 0xffff_ffff) as u32);
    let v = json!({
        "property": engine.id(),
        "class": f.violation.class,
        "message": f.violation.msg,
        "seed": seed,
        "run_index": run_index,
        "engine": engine.id(),
        "replay": f.replay,
        "expect": {"property": engine.id(), "class": f.violation.class},
    });
    if let Err(e) = std::fs::write(&path, serde_json::to_string_pretty(&v).unwrap()) {
        eprintln!("harness error: cannot write {}: {}", path, e);
        std::process::exit(2);
    }
    path
}
