//! Per-run and merged statistics. Merging is commutative, so results do not
//! depend on the number of workers.

use std::collections::{BTreeMap, BTreeSet};

#[derive(Clone, Debug, Default)]
pub struct Stats {
    pub runs: u64,
    pub steps: u64,
    pub counters: BTreeMap<String, u64>,
    pub sets: BTreeMap<String, BTreeSet<u64>>,
    /// xor of mix(run index, run digest): determinism fingerprint
    pub digest: u64,
    /// (run index, written-out sample)
    pub samples: BTreeMap<u64, serde_json::Value>,
}

impl Stats {
    pub fn inc(&mut self, k: &str) {
        self.add(k, 1);
    }
    pub fn add(&mut self, k: &str, n: u64) {
        if let Some(v) = self.counters.get_mut(k) {
            *v += n;
        } else {
            self.counters.insert(k.to_string(), n);
        }
    }
    pub fn set_insert(&mut self, k: &str, v: u64) {
        if let Some(s) = self.sets.get_mut(k) {
            s.insert(v);
        } else {
            let mut s = BTreeSet::new();
            s.insert(v);
            self.sets.insert(k.to_string(), s);
        }
    }
    pub fn get(&self, k: &str) -> u64 {
        self.counters.get(k).copied().unwrap_or(0)
    }
    pub fn set_len(&self, k: &str) -> u64 {
        self.sets.get(k).map(|s| s.len() as u64).unwrap_or(0)
    }
    pub fn merge(&mut self, o: Stats) {
        self.runs += o.runs;
        self.steps += o.steps;
        for (k, v) in o.counters {
            *self.counters.entry(k).or_insert(0) += v;
        }
        for (k, v) in o.sets {
            self.sets.entry(k).or_default().extend(v);
        }
        self.digest ^= o.digest;
        for (k, v) in o.samples {
            self.samples.insert(k, v);
        }
        while self.samples.len() > 4 {
            let last = *self.samples.keys().next_back().unwrap();
            self.samples.remove(&last);
        }
    }
    pub fn counters_with_prefix(&self, p: &str) -> BTreeMap<String, u64> {
        self.counters
            .iter()
            .filter(|(k, _)| k.starts_with(p))
            .map(|(k, v)| (k[p.len()..].to_string(), *v))
            .collect()
    }
}
