//! The forest simulation: 1–4 logical clients share one `Xot`; a seeded
//! scheduler decides who performs the next call; refused calls, failed parses,
//! stale handles, consolidation flips are the injected faults. Serves C04, C05,
//! C06 (and, with extra oracles, C10, C11, C12).

use crate::engine::{self, StepCfg, StepInfo};
use crate::gen::{self, Profile};
use crate::hashseam;
use crate::known::KnownFile;
use crate::model::{Lid, Nm, K};
use crate::ops::{EntryMode, Op, ParseKind};
use crate::rng::{Fnv, Rng};
use crate::stats::Stats;
use crate::world::{Violation, World};
use serde::{Deserialize, Serialize};
use std::collections::BTreeSet;

#[derive(Clone, Debug, Serialize, Deserialize)]
pub struct TraceOp {
    pub sid: u32,
    pub client: u8,
    pub op: Op,
}

#[derive(Clone, Debug, Serialize, Deserialize)]
pub struct ForestReplay {
    pub hash_seed: u64,
    pub ops: Vec<TraceOp>,
}

#[derive(Clone, Debug)]
pub struct Failure {
    pub violation: Violation,
    pub replay: ForestReplay,
}

/// extra per-step oracle (C10/C11/C12 plug in here); returns violations
pub type ExtraOracle = fn(&World, &mut World, &TraceOp, &StepInfo, &mut Stats) -> Vec<Violation>;
/// re-attribution of a violation found by the shared engine to the property under check
pub type Claim = fn(&Violation, &Op, &World, &StepInfo) -> Option<Violation>;

pub struct ForestCfg {
    pub property: &'static str,
    pub extra: Option<ExtraOracle>,
    /// tweak the swarm profile for the property's workload
    pub shape: fn(&mut Profile, &mut Rng),
    /// enumerate every (operation, argument tuple) at sampled states
    pub enumerate_every: u64,
    /// violations of other properties that this property also claims (e.g. a
    /// model mismatch after a map update is a C11 violation)
    pub claim: Option<Claim>,
    /// execute every call both on the store itself and on a `Xot::clone` of it
    /// and require identical results (C12: the clone is an independent, equal store)
    pub fork_check: bool,
}

pub fn no_shape(_p: &mut Profile, _r: &mut Rng) {}

fn trace_on() -> bool {
    static ON: std::sync::OnceLock<bool> = std::sync::OnceLock::new();
    *ON.get_or_init(|| std::env::var("XOTSIM_TRACE").is_ok())
}

struct Client {
    home: Vec<Lid>,
    stalled_until: usize,
    last_op: Option<Op>,
}

/// judge one executed step for the property under check
fn judge(
    cfg: &ForestCfg,
    op: &Op,
    pre: &World,
    info: &StepInfo,
    extra: Vec<Violation>,
    known: &KnownFile,
    stats: &mut Stats,
) -> Option<Violation> {
    let property = cfg.property;
    for v in info.violations.iter().chain(info.soft_violations.iter()).chain(extra.iter()) {
        let v = if v.property != property {
            match cfg.claim.and_then(|c| c(v, op, pre, info)) {
                Some(v2) => v2,
                None => {
                    stats.inc(&format!("other_property_violation/{}:{}", v.property, v.class));
                    continue;
                }
            }
        } else {
            v.clone()
        };
        if let Some(f) = known.matches(v.property, v.class, &info.cell, &v.msg) {
            stats.inc(&format!("known_finding_hits/{}", f.id));
            continue;
        }
        return Some(v);
    }
    None
}

/// arena slot of a handle (Node's Debug prints `Node(NodeId { index1: N, stamp: NodeStamp(S) })`)
fn index_of(n: xot::Node) -> u64 {
    let s = format!("{:?}", n);
    if let Some(i) = s.find("index1: ") {
        let rest = &s[i + 8..];
        let end = rest.find(|c: char| !c.is_ascii_digit()).unwrap_or(rest.len());
        return rest[..end].parse::<u64>().unwrap_or(u64::MAX);
    }
    u64::MAX
}

fn exec(
    w: &mut World,
    t: &TraceOp,
    cfg: &ForestCfg,
    known: &KnownFile,
    stats: &mut Stats,
) -> (StepInfo, Option<Violation>) {
    let pre = w.clone();
    let scfg = StepCfg { string_values: cfg.property == "C05", keep_failed: cfg.claim.is_some() };
    let mut fork_violation: Option<Violation> = None;
    let info = if cfg.fork_check {
        // the original store is mutated in place, a fork of it executes the same call
        let mut fork = w.clone();
        if t.sid % 3 == 0 {
            // the other way to copy a store: overwrite an existing one (here: one that is in the
            // opposite consolidation state and has registered names of its own)
            let mut target = xot::Xot::new();
            target.set_text_consolidation(!w.model.cons);
            target.add_name("left-over");
            let with_history = t.sid % 6 == 3;
            if with_history {
                // ... and, every other time, one that has documents of its own in the very arena slots the
                // source's documents occupy, each with an xml:id index (whatever the overwritten store
                // knew must be gone afterwards). The hash-seed stream is put back so that the history of
                // the target costs the run no draws.
                let hs0 = hashseam::get();
                let mut docs: Vec<u64> = w
                    .model
                    .roots
                    .iter()
                    .filter_map(|l| w.handles.get(l))
                    .filter(|h| !w.xot.is_removed(**h) && w.xot.is_document(**h))
                    .map(|h| index_of(*h))
                    .filter(|i| *i <= 400)
                    .collect();
                docs.sort();
                let mut last = 0u64;
                for d in docs {
                    while last.saturating_add(1) < d {
                        last = index_of(target.new_text("pad"));
                    }
                    if last.saturating_add(1) == d {
                        let _ = target.parse("<e xml:id=\"id1\"><f xml:id=\"id2\"/><g xml:id=\"id3\"><h xml:id=\"x\"/></g>t</e>");
                        last = index_of(target.new_text("pad"));
                        stats.inc("probe/c12_clone_from_target_had_a_document_in_the_same_slot");
                    }
                }
                hashseam::reseed(hs0);
            }
            target.clone_from(&w.xot);
            if with_history {
                // store-wide index: the overwritten store answers as the source does, for every document
                let probes: Vec<String> =
                    ["id1", "id2", "id3", "x"].iter().map(|s| s.to_string()).chain(w.xml_ids.iter().map(|(_, v)| v.clone())).collect();
                'outer: for l in &w.model.roots {
                    if let Some(h) = w.handles.get(l) {
                        if w.xot.is_removed(*h) || !w.xot.is_document(*h) {
                            continue;
                        }
                        for v in &probes {
                            let ra = crate::driver::real_call(|| w.xot.xml_id_node(*h, v));
                            let rb = crate::driver::real_call(|| target.xml_id_node(*h, v));
                            stats.inc("probe/c12_xml_id_lookups_compared_after_clone_from");
                            if let (Ok(ra), Ok(rb)) = (ra, rb) {
                                if ra != rb {
                                    fork_violation = Some(Violation::new(
                                        "C12",
                                        "fork-differs",
                                        format!(
                                            "after clone_from over a store that had documents and an xml:id index of its own, xml_id_node({:?}, {:?}) is {:?} in the source and {:?} in the copy",
                                            l, v, ra, rb
                                        ),
                                    ));
                                    break 'outer;
                                }
                            }
                        }
                    }
                }
            }
            fork.xot = target;
            stats.inc("fault/store_fork_made_with_clone_from");
        }
        let orig = std::mem::replace(w, World::new());
        // (World::new() creates hash tables and draws seeds: read the stream after it)
        let hs = hashseam::get();
        let (res_o, info_o) = engine::step_owned(orig, &pre, t.sid, &t.op, &scfg);
        let hs_after = hashseam::get();
        if trace_on() { eprintln!("fork: hs={:x} after orig={:x} draws={}", hs, hs_after, hashseam::draws()); }
        hashseam::reseed(hs);
        let (res_f, info_f) = engine::step_owned(fork, &pre, t.sid, &t.op, &scfg);
        if trace_on() { eprintln!("fork: after fork={:x} draws={}", hashseam::get(), hashseam::draws()); }
        hashseam::reseed(hs_after);
        stats.inc("fault/store_fork_executed_in_parallel");
        let mut diff: Option<String> = None;
        if info_o.outcome != info_f.outcome || info_o.err_text != info_f.err_text {
            diff = Some(format!(
                "original: {} {}, clone: {} {}",
                info_o.outcome, info_o.err_text, info_f.outcome, info_f.err_text
            ));
        } else if info_o.violations != info_f.violations {
            diff = Some(format!(
                "original violations {:?}, clone violations {:?}",
                info_o.violations.iter().map(|v| (v.property, v.class)).collect::<Vec<_>>(),
                info_f.violations.iter().map(|v| (v.property, v.class, v.msg.clone())).collect::<Vec<_>>()
            ));
        } else if let (Some(a), Some(b)) = (&res_o, &res_f) {
            if a.model.canon_forest() != b.model.canon_forest() {
                diff = Some(format!("forests differ after the call: original {} | clone {}", a.model.canon_forest(), b.model.canon_forest()));
            } else if a.serialise_roots() != b.serialise_roots() {
                diff = Some("serialisations differ after the call".to_string());
            } else {
                // store-wide indexes: every xml:id seen at parse time is looked up in both stores
                for (doc, value) in &a.xml_ids {
                    if let (Some(ha), Some(hb)) = (a.handles.get(doc), b.handles.get(doc)) {
                        if a.model.exists_live(*doc) && !a.xot.is_removed(*ha) && !b.xot.is_removed(*hb) {
                            let (ra, rb) = (a.xot.xml_id_node(*ha, value), b.xot.xml_id_node(*hb, value));
                            stats.inc("probe/c12_xml_id_lookups_compared_across_stores");
                            if ra != rb {
                                diff = Some(format!("xml_id_node({:?}, {:?}): original {:?}, clone {:?}", doc, value, ra, rb));
                                break;
                            }
                        }
                    }
                }
            }
        }
        if let Some(d) = diff {
            fork_violation = Some(Violation::new(
                "C12",
                "fork-differs",
                format!("{} behaves differently on a clone of the store: {}", t.op.name(), d),
            ));
        }
        // the copy taken before must not have been affected by either execution
        let mut p2 = pre.clone();
        if let Err(v) = p2.compare_with_model(None, None) {
            fork_violation = Some(Violation::new(
                "C12",
                "fork-differs",
                format!("a store cloned before {} does not read back as before: {}", t.op.name(), v.msg),
            ));
        }
        match res_o {
            Some(n) => *w = n,
            None => *w = pre.clone(),
        }
        info_o
    } else {
        engine::step(w, t.sid, &t.op, &scfg)
    };
    let mut extra = vec![];
    if let Some(fv) = fork_violation {
        extra.push(fv);
        *w = pre.clone();
    }
    if let Some(f) = cfg.extra {
        if info.violations.is_empty() && extra.is_empty() && info.outcome != "skipped" {
            extra = f(&pre, w, t, &info, stats);
            if !extra.is_empty() {
                // the step is not committed when the property's own oracle objects
                *w = pre.clone();
            }
        }
    }
    let v = judge(cfg, &t.op, &pre, &info, extra, known, stats);
    (info, v)
}

fn account(stats: &mut Stats, t: &TraceOp, info: &StepInfo, w: &World) {
    stats.steps += 1;
    stats.inc(&format!("op/{}/{}", t.op.name(), info.outcome));
    if info.outcome == "skipped" {
        return;
    }
    let mut h = Fnv::new();
    h.str(&info.cell);
    h.str(info.outcome);
    stats.set_insert("cells", h.0);
    match info.outcome {
        "err" => {
            stats.inc(&format!("fault/refused/{}", t.op.name()));
            if let Op::Parse { .. } = t.op {
                stats.inc("fault/failed_parse");
            }
            if info.pred == "done" {
                stats.inc("unexpected_refusal");
                stats.inc(&format!("unexpected_refusal/{}", t.op.name()));
            }
        }
        "ok" => {
            if info.pred == "refuse" {
                stats.inc(&format!("accepted_though_model_refuses/{}", t.op.name()));
            }
            if info.soft_mismatch {
                stats.inc("soft_adopt_in_dirty_text_state");
            }
            if info.dirty_text_state {
                stats.inc("probe/ok_calls_judged_exactly_with_adjacent_text_while_consolidation_on");
            }
        }
        _ => {}
    }
    if let Op::SetConsolidation { .. } = t.op {
        stats.inc("fault/consolidation_flip");
    }
    let mut fh = Fnv::new();
    fh.str(&w.model.canon_forest());
    stats.set_insert("states", fh.0);
}

fn probes(stats: &mut Stats, t: &TraceOp, info: &StepInfo, pre: &World) {
    // reach probes for the cases the properties name
    if info.outcome == "skipped" {
        return;
    }
    let m = &pre.model;
    let args = t.op.node_args();
    if args.len() == 2 {
        let rel = engine::relation(m, args[0], args[1]);
        stats.inc(&format!("probe/relation/{}", rel));
        if m.root_of(args[0]) != m.root_of(args[1]) && m.k(m.root_of(args[1])) == K::Doc && info.outcome == "ok" {
            stats.inc("probe/moved_across_documents");
        }
        if matches!(m.k(args[0]), K::Attr | K::Ns) && matches!(t.op, Op::InsertAfter { .. } | Op::InsertBefore { .. }) {
            stats.inc("probe/attr_or_ns_node_as_insertion_reference");
        }
        if m.cons && m.is_text(args[1]) {
            let tprev = m.prev_kid(args[1]).map(|x| m.is_text(x)).unwrap_or(false);
            let tnext = m.next_kid(args[1]).map(|x| m.is_text(x)).unwrap_or(false);
            let _ = (tprev, tnext);
        }
        if m.cons {
            let c = args[1];
            let op = m.prev_kid(c).map(|x| m.is_text(x)).unwrap_or(false);
            let on = m.next_kid(c).map(|x| m.is_text(x)).unwrap_or(false);
            if op && on {
                stats.inc("probe/old_neighbours_both_text");
                if let Op::InsertAfter { r, .. } | Op::InsertBefore { r, .. } = &t.op {
                    if m.next_kid(c) == Some(*r) {
                        stats.inc("probe/reference_node_dies_by_consolidation");
                    }
                }
            }
        }
    }
    if pre.reuse_seen > 0 {
        stats.inc("probe/steps_with_reused_slots_present");
    }
}

fn new_trace_sample(trace: &[(TraceOp, &'static str)]) -> serde_json::Value {
    let v: Vec<String> = trace
        .iter()
        .take(40)
        .map(|(t, o)| format!("c{} #{} {:?} -> {}", t.client, t.sid, t.op, o))
        .collect();
    serde_json::json!(v)
}

/// Run one seeded simulation. Returns a failure (not minimised) if the
/// property under check was violated by something no open finding covers.
pub fn run_one(cfg: &ForestCfg, run_index: u64, run_seed: u64, known: &KnownFile, stats: &mut Stats) -> Option<Failure> {
    let mut rng = Rng::new(run_seed);
    let mut prof = Profile::swarm(&mut rng);
    (cfg.shape)(&mut prof, &mut rng);
    let hash_seed = rng.next();
    hashseam::reseed(hash_seed);
    let mut w = World::new();
    let mut trace: Vec<TraceOp> = vec![];
    let mut log: Vec<(TraceOp, &'static str)> = vec![];
    let mut clients: Vec<Client> = (0..prof.clients).map(|_| Client { home: vec![], stalled_until: 0, last_op: None }).collect();
    let mut sid: u32 = 0;
    let mut digest = Fnv::new();
    let mut effective = 0u32;
    let mut faults = 0u32;
    let mut known_roots: BTreeSet<Lid> = BTreeSet::new();
    stats.runs += 1;
    stats.inc(&format!("swarm/clients/{}", prof.clients));
    if prof.fault_pct == 0 && prof.parse_fail_pct == 0 && prof.flip_pm == 0 {
        stats.inc("swarm/fault_free_runs");
    }

    let enumerate_at: Option<usize> = if cfg.enumerate_every > 0 && run_index % cfg.enumerate_every == 0 {
        Some(rng.range(prof.steps / 2, prof.steps))
    } else {
        None
    };

    let mut queued: std::collections::VecDeque<Op> = std::collections::VecDeque::new();
    let bulk_first = rng.pct(5);
    if bulk_first {
        stats.inc("swarm/store_with_many_registered_names");
    }
    let total_steps = prof.steps + prof.clients; // one initial tree per client
    for stepno in 0..total_steps {
        // ---- scheduler
        let c = if stepno < prof.clients {
            stepno
        } else {
            if prof.stall_pm > 0 && rng.ratio(prof.stall_pm as u64, 1000) && clients.iter().all(|c| c.stalled_until <= stepno) {
                let v = rng.below(clients.len());
                clients[v].stalled_until = stepno + rng.range(3, 15);
                stats.inc("fault/client_stalled");
            }
            let runnable: Vec<usize> =
                (0..clients.len()).filter(|i| clients[*i].stalled_until <= stepno).collect();
            if runnable.is_empty() {
                rng.below(clients.len())
            } else {
                *rng.pick(&runnable)
            }
        };
        // ---- the client's next call
        let op = if stepno == 0 && bulk_first {
            // the store is not new: another client has registered a few dozen (or hundred) names
            // already, so that what this run registers gets ids around 64 / 128 / 256
            let n = *rng.pick(&[61u32, 62, 63, 125, 126, 127, 253, 254, 255]);
            Op::RegisterBulk { namespaces: n, prefixes: if rng.pct(50) { n } else { 0 }, names: if rng.pct(50) { n } else { 0 } }
        } else if stepno == 0 && !prof.initial_cons {
            Op::SetConsolidation { on: false }
        } else if stepno < prof.clients {
            let fragment = rng.pct(25);
            Op::Parse {
                text: gen::gen_xml_text(&mut rng, fragment),
                kind: if fragment { ParseKind::Fragment } else { ParseKind::Doc },
            }
        } else if prof.repeat_pct > 0 && queued.is_empty() && clients[c].last_op.is_some() && rng.pct(prof.repeat_pct) {
            stats.inc("probe/call_repeated_with_same_arguments");
            clients[c].last_op.clone().unwrap()
        } else if let Some(op) = queued.pop_front() {
            stats.inc("probe/motif_calls");
            op
        } else {
            if prof.motif_pct > 0 && rng.pct(prof.motif_pct) {
                if let Some(ops) = gen::gen_motif(&w.model, &mut rng, &clients[c].home, prof.representable_ns_only) {
                    queued.extend(ops);
                }
            }
            if prof.w_storewide > 0 && rng.pct(2) {
                if let Some(ops) = gen::gen_redundant_decl_motif(&w.model, &mut rng, &clients[c].home) {
                    stats.inc("probe/redundant_declarations_motif");
                    queued.extend(ops);
                }
            }
            if rng.pct(1) {
                if let Some(ops) = gen::gen_empty_text_motif(&w.model, &mut rng, &clients[c].home) {
                    stats.inc("probe/empty_text_motif");
                    queued.extend(ops);
                }
            }
            if prof.w_storewide > 0 && rng.pct(1) {
                if let Some(ops) = gen::gen_space_motif(&w.model, &mut rng, &clients[c].home) {
                    stats.inc("probe/xml_space_motif");
                    queued.extend(ops);
                }
            }
            if prof.flip_pm > 0 && rng.pct(3) {
                if let Some(ops) = gen::gen_split_text_motif(&w.model, &mut rng, &clients[c].home) {
                    stats.inc("probe/split_text_motif");
                    queued.extend(ops);
                }
            }
            match queued.pop_front() {
                Some(op) => op,
                None => gen::gen_op(&w.model, &mut rng, &prof, &clients[c].home),
            }
        };
        sid += 1;
        if !matches!(op, Op::Parse { .. }) {
            clients[c].last_op = Some(op.clone());
        }
        let t = TraceOp { sid, client: c as u8, op };
        let pre = w.clone();
        if trace_on() {
            eprintln!("TRACE {}", serde_json::to_string(&t).unwrap());
            for a in t.op.node_args() {
                if w.model.exists_live(a) {
                    eprintln!("   arg {:?} = {} in {}", a, crate::world::brief(&w.model, a), crate::world::brief(&w.model, w.model.root_of(a)));
                }
            }
        }
        let (info, viol) = exec(&mut w, &t, cfg, known, stats);
        account(stats, &t, &info, &w);
        probes(stats, &t, &info, &pre);
        digest.str(t.op.name());
        digest.str(info.outcome);
        digest.str(info.pred);
        digest.str(&w.model.canon_forest());
        trace.push(t.clone());
        log.push((t.clone(), info.outcome));
        if info.outcome == "err" || (info.outcome == "ok" && info.pred == "refuse") {
            faults += 1;
        }
        if info.outcome == "ok" && t.op.is_manipulation() && info.violations.is_empty() {
            effective += 1;
        }
        if let Some(v) = viol {
            return Some(Failure { violation: v, replay: ForestReplay { hash_seed, ops: trace } });
        }
        // new roots belong to the acting client
        for r in w.model.roots.iter() {
            if known_roots.insert(*r) {
                clients[c].home.push(*r);
            }
        }
        // ---- fault enumeration at a sampled state
        if Some(stepno) == enumerate_at {
            if let Some(f) = enumerate_branches(&w, cfg, known, stats, &trace, hash_seed, &mut sid) {
                return Some(f);
            }
        }
    }
    // stale-handle accounting
    let dead_with_handle = w.handles.keys().filter(|l| !w.model.exists_live(**l)).count() as u64;
    stats.add("fault/stale_handles_probed_every_step", dead_with_handle);
    stats.add("probe/slot_reuse_bindings", w.reuse_seen);
    if w.reuse_seen > 0 && dead_with_handle > 0 {
        stats.inc("probe/runs_with_slot_reuse_and_stale_handles");
    }
    let d = digest.0;
    stats.digest ^= crate::rng::mix(run_index, d, 0x5eed);
    if effective >= 3 && faults >= 1 {
        stats.set_insert("nontrivial_traces", d);
    }
    if run_index < 3 {
        stats.samples.insert(run_index, new_trace_sample(&log));
    }
    None
}

/// every operation of a fixed alphabet with every tuple of live nodes, each on
/// its own clone of the world (DESIGN §2.4)
pub fn enumerate_branches(
    w: &World,
    cfg: &ForestCfg,
    known: &KnownFile,
    stats: &mut Stats,
    trace: &[TraceOp],
    hash_seed: u64,
    sid: &mut u32,
) -> Option<Failure> {
    let live = w.model.live_lids();
    if live.len() > 40 {
        stats.inc("enumeration/skipped_state_too_large");
        return None;
    }
    stats.inc("enumeration/states");
    let nm = Nm::new("w", "");
    let mut ops: Vec<Op> = vec![];
    for a in &live {
        for b in &live {
            ops.push(Op::Append { p: *a, c: *b });
            ops.push(Op::Prepend { p: *a, c: *b });
            ops.push(Op::InsertAfter { r: *a, c: *b });
            ops.push(Op::InsertBefore { r: *a, c: *b });
            ops.push(Op::Replace { old: *a, new: *b });
            ops.push(Op::AnyAppend { p: *a, c: *b });
            ops.push(Op::AppendAttrNode { p: *a, c: *b });
            ops.push(Op::AppendNsNode { p: *a, c: *b });
        }
        ops.push(Op::Detach { n: *a });
        ops.push(Op::Remove { n: *a });
        ops.push(Op::Wrap { n: *a, name: nm.clone() });
        ops.push(Op::Unwrap { n: *a });
        ops.push(Op::CloneNode { n: *a });
        ops.push(Op::CloneWithPrefixes { n: *a });
        ops.push(Op::NewDocWithElement { n: *a });
        ops.push(Op::TextContentSet { n: *a, s: "z".into() });
        ops.push(Op::AppendText { p: *a, s: "z".into() });
        ops.push(Op::AppendElement { p: *a, name: nm.clone() });
        ops.push(Op::AppendComment { p: *a, s: "z".into() });
        ops.push(Op::CommentSet { n: *a, s: "a--b".into() });
        ops.push(Op::CreateMissingPrefixes { n: *a });
        ops.push(Op::DeduplicateNamespaces { n: *a });
        ops.push(Op::RemoveInsignificantWhitespace { n: *a });
        if w.model.k(*a) == K::Elem {
            let mut keys: Vec<Nm> = vec![Nm::new("zz", "")];
            for at in &w.model.n(*a).attrs {
                if let crate::model::Kind::Attr(n, _) = &w.model.n(*at).kind {
                    keys.push(n.clone());
                }
            }
            for k in keys {
                ops.push(Op::AttrInsert { e: *a, name: k.clone(), value: "z".into() });
                ops.push(Op::AttrRemove { e: *a, name: k.clone() });
                ops.push(Op::AttrEntry { e: *a, name: k.clone(), mode: EntryMode::AndModifyOrInsert, value: "z".into() });
            }
            ops.push(Op::AttrClear { e: *a });
            ops.push(Op::NsClear { e: *a });
            ops.push(Op::NsInsert { e: *a, prefix: "zz".into(), uri: "urn:zz".into() });
            ops.push(Op::AppendNamespace { p: *a, prefix: "zz".into(), uri: "urn:zz".into() });
        }
    }
    let scratch_hash = hashseam::get();
    for op in ops {
        *sid += 1;
        let t = TraceOp { sid: *sid, client: 0, op };
        let mut wc = w.clone();
        let (info, viol) = exec(&mut wc, &t, cfg, known, stats);
        stats.inc("enumeration/calls");
        stats.inc(&format!("enumeration/outcome/{}", info.outcome));
        if info.outcome != "skipped" {
            let mut h = Fnv::new();
            h.str(&info.cell);
            h.str(info.outcome);
            stats.set_insert("cells", h.0);
            if info.outcome == "err" {
                stats.inc(&format!("fault/refused/{}", t.op.name()));
            }
        }
        hashseam::reseed(scratch_hash);
        if let Some(v) = viol {
            let mut ops = trace.to_vec();
            ops.push(t);
            return Some(Failure { violation: v, replay: ForestReplay { hash_seed, ops } });
        }
    }
    None
}

/// Execute an explicit operation list (no PRNG). Returns the first violation
/// of the property under check that no open finding covers.
pub fn replay(cfg: &ForestCfg, r: &ForestReplay, known: &KnownFile, stats: &mut Stats) -> Option<Violation> {
    hashseam::reseed(r.hash_seed);
    let mut w = World::new();
    for t in &r.ops {
        let (_info, viol) = exec(&mut w, t, cfg, known, stats);
        if let Some(v) = viol {
            return Some(v);
        }
    }
    None
}

/// ddmin over the operation list, then simplification of string arguments;
/// a candidate is kept only if the same (property, class) still fails.
pub fn minimise(cfg: &ForestCfg, f: &Failure, known: &KnownFile) -> ForestReplay {
    let mut scratch = Stats::default();
    let target = (f.violation.property, f.violation.class);
    let fails = |ops: &Vec<TraceOp>, scratch: &mut Stats| -> bool {
        let r = ForestReplay { hash_seed: f.replay.hash_seed, ops: ops.clone() };
        match replay(cfg, &r, known, scratch) {
            Some(v) => (v.property, v.class) == target,
            None => false,
        }
    };
    let mut ops = f.replay.ops.clone();
    if !fails(&ops, &mut scratch) {
        return f.replay.clone();
    }
    // the failing operation is the last one executed: drop everything after it
    // (replay stops at the first violation, so trailing ops are irrelevant)
    let mut chunk = ops.len() / 2;
    while chunk >= 1 {
        let mut i = 0;
        let mut progress = false;
        while i < ops.len() {
            let end = (i + chunk).min(ops.len());
            let mut cand = ops.clone();
            cand.drain(i..end);
            if !cand.is_empty() && fails(&cand, &mut scratch) {
                ops = cand;
                progress = true;
            } else {
                i += chunk;
            }
        }
        if chunk == 1 && !progress {
            break;
        }
        if chunk > 1 {
            chunk /= 2;
        } else if !progress {
            break;
        }
    }
    // shrink parse texts: try the simplest documents
    for i in 0..ops.len() {
        if let Op::Parse { text, kind } = &ops[i].op {
            for simple in ["<a/>", "<a>t</a>", "<a><b/>t</a>", "<a>t<b/>u</a>"] {
                if simple.len() >= text.len() {
                    continue;
                }
                let mut cand = ops.clone();
                cand[i].op = Op::Parse { text: simple.to_string(), kind: kind.clone() };
                if fails(&cand, &mut scratch) {
                    ops = cand;
                    break;
                }
            }
        }
    }
    ForestReplay { hash_seed: f.replay.hash_seed, ops }
}
