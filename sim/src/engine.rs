//! One step of the forest simulation: execute an operation on a *clone* of the
//! world, judge it (C04 structure, C05 refinement, C06 refusal atomicity), and
//! commit the clone only if nothing was violated.

use crate::model::{Kind, Lid, Model, Pred, K};
use crate::ops::{Op, Outcome};
use crate::world::{Violation, World};
use std::collections::BTreeSet;

#[derive(Clone, Default)]
pub struct StepInfo {
    /// ok | err | panic | skipped
    pub outcome: &'static str,
    /// done | refuse | unknown
    pub pred: &'static str,
    pub violations: Vec<Violation>,
    /// finite classification cell of the call (Appendix A)
    pub cell: String,
    pub soft_mismatch: bool,
    /// the call met adjacent text nodes while consolidation is on
    pub dirty_text_state: bool,
    /// violations that do not keep the step from being committed (accessor disagreements)
    pub soft_violations: Vec<Violation>,
    pub err_text: String,
    pub failed_post: Option<Box<World>>,
}

/// relation of b to a (Appendix A)
pub fn relation(m: &Model, a: Lid, b: Lid) -> &'static str {
    if a == b {
        return "same";
    }
    if m.n(b).parent == Some(a) {
        let kids = &m.n(a).kids;
        if let Some(i) = kids.iter().position(|x| *x == b) {
            return if kids.len() == 1 {
                "b-only-child-of-a"
            } else if i == 0 {
                "b-first-child-of-a"
            } else if i + 1 == kids.len() {
                "b-last-child-of-a"
            } else {
                "b-middle-child-of-a"
            };
        }
        return "b-special-child-of-a";
    }
    if m.is_ancestor_or_self(a, b) {
        return "b-deeper-descendant-of-a";
    }
    if m.is_ancestor_or_self(b, a) {
        return "b-ancestor-of-a";
    }
    if m.n(a).parent.is_some() && m.n(a).parent == m.n(b).parent {
        if m.prev_kid(a) == Some(b) {
            return "b-immediately-before-a";
        }
        if m.next_kid(a) == Some(b) {
            return "b-immediately-after-a";
        }
        return "siblings-apart";
    }
    if m.root_of(a) == m.root_of(b) {
        return "same-tree-other";
    }
    if m.n(b).parent.is_none() {
        return "b-unattached-root";
    }
    if m.n(a).parent.is_none() {
        return "a-unattached-root";
    }
    "other-tree"
}

fn ctx(m: &Model, l: Lid) -> String {
    let t = |x: Option<Lid>| if x.map(|x| m.is_text(x)).unwrap_or(false) { 'T' } else { '-' };
    format!("{}{}", t(m.prev_kid(l)), t(m.next_kid(l)))
}

pub fn cell_of(m: &Model, op: &Op) -> String {
    let args = op.node_args();
    let cons = if m.cons {
        if m.cons_ever_off {
            "on-after-off"
        } else {
            "on"
        }
    } else {
        "off"
    };
    match args.len() {
        0 => format!("{}|{}", op.name(), cons),
        1 => {
            let a = args[0];
            format!(
                "{}|{}|{}|ctx{}|{}",
                op.name(),
                m.k(a).short(),
                if m.n(a).parent.is_some() { "att" } else { "root" },
                ctx(m, a),
                cons
            )
        }
        _ => {
            let (a, b) = (args[0], args[1]);
            // new-context: neighbours at the requested place
            let newctx = match op {
                Op::Append { .. } | Op::AnyAppend { .. } => {
                    let l = m.n(a).kids.last().copied();
                    format!("{}-", if l.map(|x| m.is_text(x)).unwrap_or(false) { 'T' } else { '-' })
                }
                Op::Prepend { .. } => {
                    let l = m.n(a).kids.first().copied();
                    format!("-{}", if l.map(|x| m.is_text(x)).unwrap_or(false) { 'T' } else { '-' })
                }
                Op::InsertAfter { .. } => {
                    let nx = m.next_kid(a);
                    format!(
                        "{}{}",
                        if m.is_text(a) { 'T' } else { '-' },
                        if nx.map(|x| m.is_text(x)).unwrap_or(false) { 'T' } else { '-' }
                    )
                }
                Op::InsertBefore { .. } => {
                    let pv = m.prev_kid(a);
                    format!(
                        "{}{}",
                        if pv.map(|x| m.is_text(x)).unwrap_or(false) { 'T' } else { '-' },
                        if m.is_text(a) { 'T' } else { '-' }
                    )
                }
                Op::Replace { .. } => ctx(m, a),
                _ => "--".to_string(),
            };
            format!(
                "{}|{}{}|{}|old{}|new{}|{}",
                op.name(),
                m.k(a).short(),
                m.k(b).short(),
                relation(m, a, b),
                ctx(m, b),
                newctx,
                cons
            )
        }
    }
}

/// Are all node arguments live in the model (and have handles)?
pub fn args_live(w: &World, op: &Op) -> bool {
    op.node_args().iter().all(|l| w.model.exists_live(*l) && w.handles.contains_key(l))
}

#[derive(Clone, Debug)]
struct Delta {
    created: Vec<Lid>,
    died: Vec<Lid>,
    changed: Vec<Lid>,
}

fn delta(pre: &Model, post: &Model) -> Delta {
    let mut d = Delta { created: vec![], died: vec![], changed: vec![] };
    for (l, n) in &post.nodes {
        let was = pre.nodes.get(l).map(|x| x.live).unwrap_or(false);
        if n.live && !was {
            d.created.push(*l);
        } else if n.live && was && pre.nodes[l] != *n {
            d.changed.push(*l);
        }
    }
    for (l, n) in &pre.nodes {
        if n.live && !post.nodes.get(l).map(|x| x.live).unwrap_or(false) {
            d.died.push(*l);
        }
    }
    d
}

fn foreign(msg: String) -> Violation {
    Violation::new("C05", "foreign-tree-touched", msg)
}

/// constraint on what an adopt-operation (no node-by-node prediction) may have done
fn check_adopt_constraint(op: &Op, pre: &Model, post: &Model, ret: Option<Lid>) -> Result<(), Violation> {
    let d = delta(pre, post);
    let in_sub = |root: Lid, l: Lid| pre.nodes.contains_key(&l) && pre.is_ancestor_or_self(root, l);
    match op {
        Op::Parse { .. } | Op::Xotify { .. } | Op::CloneWithPrefixes { .. } => {
            if !d.died.is_empty() || !d.changed.is_empty() {
                return Err(foreign(format!(
                    "{} changed existing nodes: died {:?}, changed {:?}",
                    op.name(),
                    d.died,
                    d.changed
                )));
            }
            if let Some(r) = ret {
                for c in &d.created {
                    if post.root_of(*c) != r {
                        return Err(foreign(format!("{} created node {:?} outside the returned tree", op.name(), c)));
                    }
                }
            }
            // clone_with_prefixes adds exactly one copy: the source's nodes in document order, the
            // element's own declarations first and unchanged, further declarations only on the top element
            if let (Op::CloneWithPrefixes { n }, Some(r)) = (op, ret) {
                let adjacent = pre.subtree(*n).iter().any(|l| pre.n(*l).kids.windows(2).any(|w| pre.is_text(w[0]) && pre.is_text(w[1])));
                let own: Vec<Kind> = pre.n(*n).ns.iter().map(|l| pre.n(*l).kind.clone()).collect();
                let got: Vec<Kind> = post.n(r).ns.iter().map(|l| post.n(*l).kind.clone()).collect();
                if pre.k(*n) == K::Elem && (got.len() < own.len() || got[..own.len()] != own[..]) {
                    return Err(Violation::new("C05", "clone-not-a-copy", format!("clone_with_prefixes({:?}) changed the element's own declarations: {:?} became {:?}", n, own, got)));
                }
                if !adjacent {
                    let src: Vec<Kind> = pre.subtree(*n).iter().filter(|l| !(pre.k(**l) == K::Ns && pre.n(**l).parent == Some(*n))).map(|l| pre.n(*l).kind.clone()).collect();
                    let cl: Vec<Kind> = post.subtree(r).iter().filter(|l| !(post.k(**l) == K::Ns && post.n(**l).parent == Some(r))).map(|l| post.n(*l).kind.clone()).collect();
                    if src != cl {
                        return Err(Violation::new("C05", "clone-not-a-copy", format!("clone_with_prefixes({:?}) is not a copy of its source", n)));
                    }
                }
            }
            Ok(())
        }
        Op::RemoveInsignificantWhitespace { n } => {
            if !d.created.is_empty() {
                return Err(foreign(format!("remove_insignificant_whitespace created nodes {:?}", d.created)));
            }
            // what the call removes: whitespace-only text below (or at) the argument. With adjacent text
            // nodes around (left from a time without consolidation) the removal of such a node between
            // two text nodes merges the later into the earlier one, as any removal does: the later one
            // dies too, the earlier one changes its value
            let removed_ws = |l: Lid| in_sub(*n, l) && matches!(&pre.n(l).kind, Kind::Text(t) if t.chars().all(|c| c.is_whitespace()));
            let absorbed = |l: Lid| pre.cons && pre.is_text(l) && pre.prev_kid(l).map_or(false, |pv| pre.is_text(pv) && d.died.contains(&pv) && removed_ws(pv));
            let absorbing = |l: Lid| pre.cons && pre.is_text(l) && pre.next_kid(l).map_or(false, |nx| d.died.contains(&nx) && removed_ws(nx));
            for l in &d.died {
                let ok = removed_ws(*l) || absorbed(*l);
                if !ok {
                    return Err(foreign(format!(
                        "remove_insignificant_whitespace removed {:?} ({:?})",
                        l,
                        pre.n(*l).kind
                    )));
                }
            }
            for l in &d.changed {
                // the node itself may be the removed text: then its parent's child list changes
                let ok_place = in_sub(*n, *l) || pre.n(*n).parent == Some(*l) || absorbing(*l) || d.died.iter().any(|x| pre.n(*x).parent == Some(*l));
                let same_kind = pre.n(*l).kind == post.n(*l).kind
                    || (pre.is_text(*l) && post.is_text(*l));
                if !ok_place || !same_kind {
                    return Err(foreign(format!("remove_insignificant_whitespace altered {:?}", l)));
                }
            }
            Ok(())
        }
        Op::CreateMissingPrefixes { n } => {
            if !d.died.is_empty() {
                return Err(foreign(format!("create_missing_prefixes removed {:?}", d.died)));
            }
            for l in &d.created {
                if post.k(*l) != K::Ns {
                    return Err(foreign(format!("create_missing_prefixes created a {:?}", post.n(*l).kind)));
                }
            }
            let root = pre.root_of(*n);
            for l in &d.changed {
                let a = &pre.n(*l);
                let b = &post.n(*l);
                // the default declaration of an element that is in no namespace may be turned
                // into xmlns="" (the only way to make that element serialisable)
                if let (Kind::Ns(pa, _), Kind::Ns(pb, ub)) = (&a.kind, &b.kind) {
                    let parent_no_ns = a.parent.map(|p| matches!(&pre.n(p).kind, Kind::Elem(nm) if nm.uri.is_empty())).unwrap_or(false);
                    if pa.is_empty() && pb.is_empty() && ub.is_empty() && parent_no_ns && a.parent == b.parent {
                        continue;
                    }
                }
                if pre.root_of(*l) != root || a.kind != b.kind || a.attrs != b.attrs || a.kids != b.kids || a.parent != b.parent {
                    return Err(foreign(format!("create_missing_prefixes altered {:?}", l)));
                }
            }
            Ok(())
        }
        Op::DeduplicateNamespaces { n } => {
            if !d.created.is_empty() {
                return Err(foreign(format!("deduplicate_namespaces created {:?}", d.created)));
            }
            for l in &d.died {
                if !in_sub(*n, *l) || pre.k(*l) != K::Ns {
                    return Err(foreign(format!("deduplicate_namespaces removed {:?} ({:?})", l, pre.n(*l).kind)));
                }
            }
            for l in &d.changed {
                let a = &pre.n(*l);
                let b = &post.n(*l);
                if !in_sub(*n, *l) || a.kind != b.kind || a.attrs != b.attrs || a.kids != b.kids || a.parent != b.parent {
                    return Err(foreign(format!("deduplicate_namespaces altered {:?}", l)));
                }
            }
            Ok(())
        }
        _ => {
            // no prediction: only the trees of the arguments may be involved
            let mut trees: BTreeSet<Lid> = BTreeSet::new();
            for a in op.node_args() {
                trees.insert(pre.root_of(a));
                if post.exists_live(a) {
                    trees.insert(post.root_of(a));
                }
            }
            for l in d.died.iter().chain(d.changed.iter()) {
                if !trees.contains(&pre.root_of(*l)) {
                    return Err(foreign(format!("{} touched {:?} in an uninvolved tree", op.name(), l)));
                }
            }
            Ok(())
        }
    }
}

fn check_string_values(w: &World) -> Result<(), Violation> {
    for (l, n) in &w.model.nodes {
        if !n.live || !matches!(n.kind, Kind::Doc | Kind::Elem(_)) {
            continue;
        }
        if let Some(h) = w.handles.get(l) {
            let real = w.xot.string_value(*h);
            let model = w.model.string_value(*l);
            if real != model {
                return Err(Violation::new(
                    "C05",
                    "string-value",
                    format!("string_value of {:?}: model {:?}, real {:?}", l, model, real),
                ));
            }
        }
    }
    Ok(())
}

fn check_xml_ids(w: &World) -> Result<(), Violation> {
    for (doc, v) in &w.xml_ids {
        if !w.model.exists_live(*doc) {
            continue;
        }
        let d = w.h(*doc);
        if let Some(n) = w.xot.xml_id_node(d, v) {
            if w.xot.is_removed(n) {
                return Err(Violation::new(
                    "C04",
                    "removed-node-handed-out",
                    format!("xml_id_node({:?}, {:?}) returned removed node {:?}", doc, v, n),
                ));
            }
        }
    }
    Ok(())
}

/// does the store merge adjacent text at the moment? (two texts appended to a scratch element of
/// a scratch clone)
pub fn behavioural_consolidation(x: &xot::Xot) -> bool {
    let mut s = x.clone();
    let r = crate::driver::real_call(move || {
        let n = s.add_name("probe");
        let e = s.new_element(n);
        let _ = s.append_text(e, "a");
        let _ = s.append_text(e, "b");
        s.children(e).count() == 1
    });
    r.unwrap_or(true)
}

pub struct StepCfg {
    /// check string_value of every Doc/Elem after each successful call
    pub string_values: bool,
    /// keep the world of a failed step in `StepInfo::failed_post` (diagnosis, re-attribution)
    pub keep_failed: bool,
}

fn fail(w2: World, mut info: StepInfo, cfg: &StepCfg) -> (Option<World>, StepInfo) {
    if cfg.keep_failed {
        info.failed_post = Some(Box::new(w2));
    }
    (None, info)
}

/// Execute one operation on a clone of the world (`Xot::clone` is the store
/// fork); the clone is committed only if nothing was violated.
pub fn step(w: &mut World, sid: u32, op: &Op, cfg: &StepCfg) -> StepInfo {
    let (res, info) = step_owned(w.clone(), w, sid, op, cfg);
    if let Some(n) = res {
        *w = n;
    }
    info
}

/// Execute one operation on `w2` itself (moved in). `w` is an untouched copy of
/// the state before. Returns the new world if nothing was violated.
pub fn step_owned(w2: World, w: &World, sid: u32, op: &Op, cfg: &StepCfg) -> (Option<World>, StepInfo) {
    let _ = crate::world::take_soft();
    let (res, mut info) = step_owned_inner(w2, w, sid, op, cfg);
    info.soft_violations = crate::world::take_soft();
    (res, info)
}

fn step_owned_inner(mut w2: World, w: &World, sid: u32, op: &Op, cfg: &StepCfg) -> (Option<World>, StepInfo) {
    let mut info = StepInfo::default();
    if !args_live(w, op) {
        info.outcome = "skipped";
        return (Some(w2), info);
    }
    if op.is_element_only() && w.model.k(op.node_args()[0]) != K::Elem {
        // documented panic of the element-only accessors: not exercised
        info.outcome = "skipped";
        return (Some(w2), info);
    }
    info.cell = cell_of(&w.model, op);
    w2.model.begin_op(sid);
    let pre_model = w2.model.clone();
    let pre_cons = pre_model.cons;
    // the model follows the store's local merge rules also while adjacent text nodes from a time
    // without consolidation are around (they stay as they are; only nodes that become adjacent
    // are merged), so the prediction is judged exactly in that state too
    let exact = true;
    info.dirty_text_state = !pre_model.exact_text_semantics();
    let pred = op.apply_model(&mut w2.model);
    info.pred = match &pred {
        Pred::Done(_) => "done",
        Pred::Refuse => "refuse",
        Pred::Unknown => "unknown",
    };
    let out = w2.exec_real(op);
    match out {
        Outcome::Panic(msg) => {
            if msg.starts_with("harness:") {
                panic!("{}", msg);
            }
            info.outcome = "panic";
            // a panicking parser is C03's subject, a panicking manipulation C06's
            let prop = if matches!(op, Op::Parse { .. }) { "C03" } else { "C06" };
            info.violations.push(Violation::new(
                prop,
                "panic",
                format!("{} panicked: {} [cell {}]", op.name(), msg, info.cell),
            ));
            // a panic may also have left the store structurally broken: not
            // observable safely; the clone is discarded.
            return fail(w2, info, cfg);
        }
        Outcome::Err(e) => {
            info.outcome = "err";
            info.err_text = e.clone();
            // not a refusal by the store: an oracle inside the call sequence of a batch operation
            if let Some(m) = e.strip_prefix("oracle:C11:") {
                info.violations.push(Violation::new("C11", "view-disagreement", format!("{}: {} [cell {}]", op.name(), m, info.cell)));
                return fail(w2, info, cfg);
            }
            w2.model = pre_model;
            if let Err(v) = w2.compare_with_model(None, None) {
                if v.property == "C04" {
                    info.violations.push(v.clone());
                }
                info.violations.push(Violation::new(
                    "C06",
                    "state-changed-after-Err",
                    format!("{} returned Err({}) but the forest changed: {} [cell {}]", op.name(), e, v.msg, info.cell),
                ));
                return fail(w2, info, cfg);
            }
            // the consolidation switch is store-wide state too: read it behaviourally on a scratch clone
            if behavioural_consolidation(&w2.xot) != pre_cons {
                info.violations.push(Violation::new(
                    "C06",
                    "state-changed-after-Err",
                    format!("{} returned Err({}) and left text consolidation switched {} [cell {}]", op.name(), e, if pre_cons { "off" } else { "on" }, info.cell),
                ));
                return fail(w2, info, cfg);
            }
            let before = w.serialise_roots();
            let after = w2.serialise_roots();
            if before != after {
                info.violations.push(Violation::new(
                    "C06",
                    "state-changed-after-Err",
                    format!("{} returned Err({}) but a tree serialises differently [cell {}]", op.name(), e, info.cell),
                ));
                return fail(w2, info, cfg);
            }
            (Some(w2), info)
        }
        Outcome::Ok(ret) => {
            info.outcome = "ok";
            if let Some(n) = ret {
                if w2.xot.is_removed(n) {
                    info.violations.push(Violation::new(
                        "C04",
                        "removed-node-handed-out",
                        format!("{} returned the removed node {:?} ({:?}) [cell {}]", op.name(), n, w2.rev.get(&n), info.cell),
                    ));
                    return fail(w2, info, cfg);
                }
            }
            match pred {
                Pred::Done(pl) if exact => {
                    if let Err(v) = w2.compare_with_model(ret, pl) {
                        info.violations.push(v);
                        return fail(w2, info, cfg);
                    }
                    if cfg.string_values {
                        if let Err(v) = check_string_values(&w2) {
                            info.violations.push(v);
                            return fail(w2, info, cfg);
                        }
                    }
                }
                _ => {
                    // no (exact) prediction, or a documented refusal that the store
                    // accepted: adopt the validated read-back
                    if matches!(pred, Pred::Done(_)) {
                        info.soft_mismatch = true;
                    }
                    w2.model = pre_model.clone();
                    w2.model.begin_op(sid);
                    let extra: Vec<_> = ret.into_iter().collect();
                    if let Err(v) = w2.adopt(&extra) {
                        info.violations.push(v);
                        return fail(w2, info, cfg);
                    }
                    let ret_l = ret.and_then(|n| w2.rev.get(&n).copied());
                    if let Err(v) = check_adopt_constraint(op, &pre_model, &w2.model, ret_l) {
                        info.violations.push(v);
                        return fail(w2, info, cfg);
                    }
                    // (after the read-back, so that structural damage is reported as such first)
                    if matches!(pred, Pred::Refuse) {
                        // the model refuses exactly what the documentation says is refused (on the
                        // unchanged tree the two agree on every call of every batch): a success here
                        // is a state that the operation does not produce on the model
                        info.violations.push(Violation::new(
                            "C05",
                            "accepted-call-the-model-refuses",
                            format!("{} succeeded although its arguments do not meet the documented preconditions [cell {}]", op.name(), info.cell),
                        ));
                        return fail(w2, info, cfg);
                    }

                    if let Op::Parse { .. } = op {
                        // remember xml:id values of the new document
                        if let Some(r) = ret_l {
                            let mut ids = vec![];
                            for l in w2.model.subtree(r) {
                                if let Kind::Attr(n, v) = &w2.model.n(l).kind {
                                    if n.local == "id" && n.uri == "http://www.w3.org/XML/1998/namespace" {
                                        ids.push(v.clone());
                                    }
                                }
                            }
                            for v in ids {
                                w2.xml_ids.push((r, v));
                            }
                        }
                    }
                }
            }
            if let Op::CloneNode { n } | Op::CloneWithPrefixes { n } = op {
                if let Some(cl) = ret.and_then(|r| w2.rev.get(&r).copied()) {
                    w2.clone_pairs.push((*n, cl));
                }
            }
            if let Err(v) = check_xml_ids(&w2) {
                info.violations.push(v);
                return fail(w2, info, cfg);
            }
            // the xml:id index is store-wide state: a call leaves the lookups of every document it has
            // nothing to do with as they were (a clone call: of every document)
            {
                let mut involved: BTreeSet<Lid> = BTreeSet::new();
                if !matches!(op, Op::CloneNode { .. } | Op::CloneWithPrefixes { .. }) {
                    for a in op.node_args() {
                        involved.insert(w.model.root_of(a));
                        if w2.model.exists_live(a) {
                            involved.insert(w2.model.root_of(a));
                        }
                    }
                }
                for (doc, value) in &w.xml_ids {
                    if involved.contains(doc) || !w.model.exists_live(*doc) || !w2.model.exists_live(*doc) {
                        continue;
                    }
                    let before = w.xot.xml_id_node(w.h(*doc), value);
                    let after = w2.xot.xml_id_node(w2.h(*doc), value);
                    if before != after {
                        info.violations.push(Violation::new(
                            "C05",
                            "foreign-tree-touched",
                            format!("{} changed xml_id_node({:?}, {:?}) of a document it does not involve: {:?} -> {:?} [cell {}]", op.name(), doc, value, before, after, info.cell),
                        ));
                        return fail(w2, info, cfg);
                    }
                }
            }
            (Some(w2), info)
        }
    }
}
