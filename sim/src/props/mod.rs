pub mod c03;
pub mod c08;
pub mod c10;
pub mod c11;
pub mod c12;
pub mod c16;
pub mod c20;
pub mod forest_props;

use crate::driver::PropEngine;

pub fn engine_for(id: &str) -> Option<Box<dyn PropEngine>> {
    match id {
        "C03" => Some(Box::new(c03::C03Engine)),
        "C04" => Some(Box::new(forest_props::ForestEngine::c04())),
        "C05" => Some(Box::new(forest_props::ForestEngine::c05())),
        "C06" => Some(Box::new(forest_props::ForestEngine::c06())),
        "C08" => Some(Box::new(c08::C08Engine)),
        "C10" => Some(Box::new(c10::engine())),
        "C11" => Some(Box::new(c11::engine())),
        "C12" => Some(Box::new(c12::engine())),
        "C16" => Some(Box::new(c16::C16Engine)),
        "C20" => Some(Box::new(c20::C20Engine)),
        _ => None,
    }
}

pub const CLAIMED: [&str; 10] = ["C03", "C04", "C05", "C06", "C08", "C10", "C11", "C12", "C16", "C20"];
