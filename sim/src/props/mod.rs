pub mod forest_props;

use crate::driver::PropEngine;

pub fn engine_for(id: &str) -> Option<Box<dyn PropEngine>> {
    match id {
        "C04" => Some(Box::new(forest_props::ForestEngine::c04())),
        "C05" => Some(Box::new(forest_props::ForestEngine::c05())),
        "C06" => Some(Box::new(forest_props::ForestEngine::c06())),
        _ => None,
    }
}

pub const CLAIMED: [&str; 3] = ["C04", "C05", "C06"];
