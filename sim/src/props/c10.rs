//! C10 — serialisation never changes a name's meaning; missing prefixes are
//! repairable. Forest simulation with a namespace-heavy workload; histories
//! alternate 'add / move / clone nodes away from their declarations' with
//! create_missing_prefixes; hash seeds (which decide the n{i} assignment) come
//! from the simulator.

use super::forest_props::ForestEngine;
use crate::driver::real_call;
use crate::engine::StepInfo;
use crate::forest::{ForestCfg, TraceOp};
use crate::gen::Profile;
use crate::model::{Kind, Lid, Model, Nm, K};
use crate::ops::Op;
use crate::rng::Rng;
use crate::stats::Stats;
use crate::world::{Violation, World};
use crate::xmlscan;

fn v(class: &'static str, msg: String) -> Violation {
    Violation::new("C10", class, msg)
}

fn shape(p: &mut Profile, r: &mut Rng) {
    p.w_storewide += 6;
    p.w_move += 8;
    p.w_clone += 4;
    p.w_map += 6;
    p.w_create += 3;
    p.w_convenience += 3;
    p.w_special_node += 2;
    p.fault_pct = p.fault_pct.min(10);
    p.flip_pm = 0;
    p.initial_cons = true;
    p.representable_ns_only = true;
    p.motif_pct = *r.pick(&[0u32, 3, 8]);
    if r.pct(50) {
        p.w_wrap += 3;
    }
}

fn claim(viol: &Violation, op: &Op, _pre: &World, _info: &StepInfo) -> Option<Violation> {
    if let Op::CreateMissingPrefixes { .. } = op {
        // (what an accessor says about the tree is not the tree: no claim for those)
        if (viol.property == "C05" || viol.property == "C04") && viol.class != "accessor-disagrees" {
            return Some(v("repair-changed-content", format!("create_missing_prefixes: {}", viol.msg)));
        }
        if viol.property == "C06" && viol.class == "panic" {
            return Some(v("repair-failed", viol.msg.clone()));
        }
    }
    None
}

/// expected (element name, attributes) in document order from the model
fn model_names(m: &Model, root: Lid) -> Vec<(Nm, Vec<(Nm, String)>)> {
    let mut out = vec![];
    for l in m.subtree(root) {
        if let Kind::Elem(n) = &m.n(l).kind {
            let attrs = m
                .n(l)
                .attrs
                .iter()
                .filter_map(|a| if let Kind::Attr(an, val) = &m.n(*a).kind { Some((an.clone(), val.clone())) } else { None })
                .collect();
            out.push((n.clone(), attrs));
        }
    }
    out
}

/// does the model give `ns` a usable prefix in scope at element `e` (for an
/// attribute: a non-empty one)?
fn resolvable(m: &Model, e: Lid, uri: &str, for_attr: bool) -> bool {
    if uri.is_empty() {
        if for_attr {
            return true;
        }
        // a no-namespace element needs the default prefix unbound (or bound to "")
        let mut cur = Some(e);
        while let Some(c) = cur {
            for nl in m.n(c).ns.iter() {
                if let Kind::Ns(p, u) = &m.n(*nl).kind {
                    if p.is_empty() {
                        return u.is_empty();
                    }
                }
            }
            cur = m.n(c).parent;
        }
        return true;
    }
    if uri == "http://www.w3.org/XML/1998/namespace" {
        return true;
    }
    let mut seen: Vec<String> = vec![];
    let mut cur = Some(e);
    while let Some(c) = cur {
        // later declarations on the same element win; keys are unique per element
        for nl in m.n(c).ns.iter() {
            if let Kind::Ns(p, u) = &m.n(*nl).kind {
                if seen.contains(p) {
                    continue;
                }
                seen.push(p.clone());
                if u == uri && (!for_attr || !p.is_empty()) {
                    return true;
                }
            }
        }
        cur = m.n(c).parent;
    }
    false
}

/// all (element, name uri, is attribute) of a subtree that resolve in the model
fn resolving_names(m: &Model, root: Lid) -> Vec<(Lid, String, bool)> {
    let mut out = vec![];
    for l in m.subtree(root) {
        if let Kind::Elem(n) = &m.n(l).kind {
            if resolvable(m, l, &n.uri, false) {
                out.push((l, n.uri.clone(), false));
            }
            for a in &m.n(l).attrs {
                if let Kind::Attr(an, _) = &m.n(*a).kind {
                    if resolvable(m, l, &an.uri, true) {
                        out.push((l, an.uri.clone(), true));
                    }
                }
            }
        }
    }
    out
}

/// a deterministic stand-in for a user-supplied `Normalizer` (Unicode normalization is meant for
/// character data): rewrites characters that occur in the generated local names, prefixes and
/// namespace names, so that a serialiser that lets it touch a name or a namespace name shows
struct NameHostileNormalizer;
impl xot::output::Normalizer for NameHostileNormalizer {
    fn normalize<'a>(&self, content: std::borrow::Cow<'a, str>) -> std::borrow::Cow<'a, str> {
        if content.contains(['a', 'p', 'x', 'n', '\u{e9}']) {
            std::borrow::Cow::Owned(content.replace('a', "A").replace('p', "P").replace('x', "X").replace('n', "N").replace('\u{e9}', "e\u{301}"))
        } else {
            content
        }
    }
}

/// clause 1: serialisation is an error or resolves to the model's names; `normalized` selects the
/// entry point that takes a normalizer
fn check_serialisation(w: &World, root: Lid, stats: &mut Stats, normalized: bool) -> Result<Option<String>, Violation> {
    check_serialisation_route(w, root, stats, if normalized { 1 } else { 0 })
}

/// route 0: to_string; 1: with a normalizer; 2: pretty-printed (indentation is whitespace only:
/// the names must come out the same)
fn check_serialisation_route(w: &World, root: Lid, stats: &mut Stats, route: u8) -> Result<Option<String>, Violation> {
    let h = w.h(root);
    let produced = match route {
        1 => {
            stats.inc("probe/c10_serialisations_with_normalizer");
            real_call(|| w.xot.serialize_xml_string_with_normalizer(Default::default(), h, NameHostileNormalizer))
        }
        2 => {
            stats.inc("probe/c10_serialisations_pretty");
            real_call(|| {
                w.xot.serialize_xml_string(
                    xot::output::xml::Parameters { indentation: Some(Default::default()), ..Default::default() },
                    h,
                )
            })
        }
        3 => {
            // the token stream, concatenated (it unwinds where the other routes return an error - O4 -,
            // which is not judged; a text that it does produce is)
            stats.inc("probe/c10_serialisations_through_tokens");
            match real_call(|| {
                let mut s = String::new();
                for (_n, _o, t) in w.xot.tokens(h, Default::default(), xot::output::NoopNormalizer) {
                    if t.space {
                        s.push(' ');
                    }
                    s.push_str(&t.text);
                }
                s
            }) {
                Ok(s) => Ok(Ok(s)),
                Err(_) => return Ok(None),
            }
        }
        _ => real_call(|| w.xot.to_string(h)),
    };
    let text = match produced {
        Ok(Ok(t)) => t,
        Ok(Err(_)) => {
            stats.inc("probe/c10_serialisation_refused");
            return Ok(None);
        }
        // "fails with an error or produces text": unwinding is neither (only documents and elements
        // are serialised here; the parentless text node of O3 cannot be the cause)
        Err(_) => return Err(v("name-meaning-changed", format!("serialisation of {:?} (route {}) unwinds instead of returning text or an error", root, route))),
    };
    stats.inc("probe/c10_serialisations_resolved");
    // lexical well-formedness of the text (escaping of content and of namespace URIs) is the
    // subject of C01/C03, not of this property
    let evs = match xmlscan::scan(&text) {
        Ok(e) => e,
        // content that has no XML representation (API-set comment / PI / CDATA content) is C01/C03's subject
        Err(e) if e.contains("comment") || e.contains("PI") || e.contains("CDATA") => {
            stats.inc("probe/c10_serialisation_not_scannable_skipped");
            return Ok(None);
        }
        // a start tag, attribute, declaration or reference that cannot be read: the names of such
        // a text do not resolve to anything
        Err(e) => return Err(v("name-meaning-changed", format!("serialisation {:?} cannot be read ({}), so its names do not resolve", text, e))),
    };
    let res = xmlscan::resolve(&evs).map_err(|e| v("name-meaning-changed", format!("serialisation {:?} is not namespace-well-formed: {}", text, e)))?;
    let exp = model_names(&w.model, root);
    if res.len() != exp.len() {
        return Err(v("name-meaning-changed", format!("serialisation {:?} has {} elements, the tree {}", text, res.len(), exp.len())));
    }
    for (r, (en, eattrs)) in res.iter().zip(exp.iter()) {
        if r.local != en.local || r.uri != en.uri {
            return Err(v(
                "name-meaning-changed",
                format!("serialisation {:?}: element written as {{{}}}{} but the node is {{{}}}{}", text, r.uri, r.local, en.uri, en.local),
            ));
        }
        let got: Vec<(String, String)> = r.attrs.iter().map(|(l, u, _)| (l.clone(), u.clone())).collect();
        let want: Vec<(String, String)> = eattrs.iter().map(|(n, _)| (n.local.clone(), n.uri.clone())).collect();
        if got != want {
            return Err(v(
                "name-meaning-changed",
                format!("serialisation {:?}: attributes of {} written as {:?} but are {:?}", text, en.local, got, want),
            ));
        }
    }
    Ok(Some(text))
}

/// reparse in a scratch store and compare names, attributes and content
fn reparse_equal(w: &World, root: Lid, text: &str) -> Result<(), Violation> {
    let mut scratch = xot::Xot::new();
    let is_doc = w.model.k(root) == K::Doc;
    let parsed = real_call(|| if is_doc { scratch.parse_fragment(text) } else { scratch.parse(text) });
    let p = match parsed {
        Ok(Ok(p)) => p,
        // duplicate xml:id values (e.g. after cloning) make the text unparsable for a reason
        // that has nothing to do with names
        Ok(Err(xot::ParseError::DuplicateId(..))) => return Ok(()),
        other => return Err(v("repair-failed", format!("serialisation {:?} does not reparse: {:?}", text, other.map(|r| r.map(|_| ())).map_err(|_| "panic")))),
    };
    // canonical content without namespace declarations
    fn canon_model(m: &Model, l: Lid, s: &mut String) {
        let n = m.n(l);
        match &n.kind {
            Kind::Doc => s.push_str("D("),
            Kind::Elem(nm) => s.push_str(&format!("E{{{}}}{}(", nm.uri, nm.local)),
            Kind::Text(t) => {
                s.push_str(&format!("T{:?}", t));
                return;
            }
            Kind::Comment(t) => {
                s.push_str(&format!("C{:?}", t));
                return;
            }
            Kind::PI(t, d) => {
                s.push_str(&format!("P{}:{:?}", t.local, d));
                return;
            }
            _ => return,
        }
        for a in &n.attrs {
            if let Kind::Attr(an, val) = &m.n(*a).kind {
                s.push_str(&format!("@{{{}}}{}={:?},", an.uri, an.local, val));
            }
        }
        // empty text nodes and the boundary between adjacent text nodes cannot be expressed in XML
        let mut pending: Option<String> = None;
        for k in &n.kids {
            if let Kind::Text(t) = &m.n(*k).kind {
                pending = Some(pending.unwrap_or_default() + t);
                continue;
            }
            if let Some(t) = pending.take() {
                if !t.is_empty() {
                    s.push_str(&format!("T{:?},", t));
                }
            }
            canon_model(m, *k, s);
            s.push(',');
        }
        if let Some(t) = pending.take() {
            if !t.is_empty() {
                s.push_str(&format!("T{:?},", t));
            }
        }
        s.push(')');
    }
    fn canon_real(x: &xot::Xot, n: xot::Node, s: &mut String) {
        match x.value(n) {
            xot::Value::Document => s.push_str("D("),
            xot::Value::Element(e) => {
                let (l, u) = x.name_ns_str(e.name());
                s.push_str(&format!("E{{{}}}{}(", u, l));
            }
            xot::Value::Text(t) => {
                s.push_str(&format!("T{:?}", t.get()));
                return;
            }
            xot::Value::Comment(t) => {
                s.push_str(&format!("C{:?}", t.get()));
                return;
            }
            xot::Value::ProcessingInstruction(p) => {
                s.push_str(&format!("P{}:{:?}", x.local_name_str(p.target()), p.data().map(|d| d.to_string())));
                return;
            }
            _ => return,
        }
        for (k, val) in x.attributes(n).iter() {
            let (l, u) = x.name_ns_str(k);
            s.push_str(&format!("@{{{}}}{}={:?},", u, l, val));
        }
        for k in x.children(n) {
            canon_real(x, k, s);
            s.push(',');
        }
        s.push(')');
    }
    let mut a = String::new();
    canon_model(&w.model, root, &mut a);
    let mut b = String::new();
    let top = if is_doc { p } else { scratch.document_element(p).unwrap_or(p) };
    canon_real(&scratch, top, &mut b);
    if a != b {
        return Err(v("repair-failed", format!("serialisation {:?} reparses to {} but the tree is {}", text, b, a)));
    }
    Ok(())
}

fn extra(pre: &World, post: &mut World, t: &TraceOp, info: &StepInfo, stats: &mut Stats) -> Vec<Violation> {
    // ---- clause 1 on every serialisable root
    let roots: Vec<Lid> = post
        .model
        .roots
        .iter()
        .copied()
        .filter(|r| post.handles.contains_key(r) && matches!(post.model.k(*r), K::Doc | K::Elem))
        .collect();
    for r in &roots {
        if let Err(e) = check_serialisation(post, *r, stats, false) {
            return vec![e];
        }
        // the entry point with a user-supplied normalizer: names and namespace names are not its business
        if let Err(e) = check_serialisation(post, *r, stats, true) {
            return vec![e];
        }
        if let Err(e) = check_serialisation_route(post, *r, stats, 2) {
            return vec![e];
        }
        if let Err(e) = check_serialisation_route(post, *r, stats, 3) {
            return vec![e];
        }
    }
    // ---- clause 1 through the Write-based entry point and a sink that writes short: the text a
    // consumer receives must be the text whose names were just resolved
    if let Some(r) = roots.first() {
        let h = post.h(*r);
        if let Ok(Ok(text)) = real_call(|| post.xot.to_string(h)) {
            use crate::props::c16::{SimSink, SinkFault};
            let sched: Vec<SinkFault> = (0..4096u32)
                .map(|i| match crate::rng::mix(t.sid as u64, i as u64, 5) % 5 {
                    0 => SinkFault::Short(1 + (i as usize % 3)),
                    1 => SinkFault::Interrupted,
                    _ => SinkFault::Full,
                })
                .collect();
            let mut sink = SimSink::with(sched);
            let res = real_call(|| post.xot.write(h, &mut sink));
            stats.inc("fault/c10_write_through_short_writing_sink");
            if !matches!(res, Ok(Ok(()))) || sink.accepted != text.as_bytes() {
                return vec![v(
                    "name-meaning-changed",
                    format!(
                        "write() through a sink with short writes delivered {:?} ({:?}), to_string gives {:?}",
                        String::from_utf8_lossy(&sink.accepted),
                        res.map(|r| r.map_err(|e| format!("{:?}", e))).map_err(|_| "panic"),
                        text
                    ),
                )];
            }
        }
    }
    // ---- clause 1 also holds for the serialisation of a subtree in place: a few nested elements
    let nested: Vec<Lid> = post
        .model
        .nodes
        .iter()
        .filter(|(_, n)| n.live && n.parent.is_some() && matches!(n.kind, Kind::Elem(_)))
        .map(|(l, _)| *l)
        .collect();
    if !nested.is_empty() {
        for k in 0..3usize.min(nested.len()) {
            let pick = nested[(crate::rng::mix(t.sid as u64, k as u64, 11) % nested.len() as u64) as usize];
            if !post.handles.contains_key(&pick) {
                continue;
            }
            stats.inc("probe/c10_nested_elements_serialised");
            if let Err(e) = check_serialisation(post, pick, stats, k == 1) {
                return vec![e];
            }
        }
    }
    // ---- clauses 2 and 3: after a repair
    if let Op::CreateMissingPrefixes { n } = &t.op {
        let n = *n;
        if !matches!(pre.model.k(n), K::Doc | K::Elem) {
            return vec![];
        }
        stats.inc("probe/c10_repairs");
        if info.outcome != "ok" {
            return vec![v("repair-failed", format!("create_missing_prefixes on a {:?} returned {}", pre.model.k(n), info.err_text))];
        }
        let before_missing = resolving_names(&pre.model, n).len();
        let total = model_names(&post.model, n).iter().map(|(_, a)| 1 + a.len()).sum::<usize>();
        if before_missing < total {
            stats.inc("probe/c10_repairs_with_something_missing");
        }
        if post.model.nodes.values().filter(|x| x.live && matches!(&x.kind, Kind::Ns(p, _) if p.starts_with('n') && p[1..].chars().all(|c| c.is_ascii_digit()) && p.len() > 1)).count() > 1 {
            stats.inc("probe/c10_several_generated_prefixes_alive");
        }
        // serialisation of the repaired node succeeds ...
        let h = post.h(n);
        let text = match real_call(|| post.xot.to_string(h)) {
            Ok(Ok(t)) => t,
            Ok(Err(e)) => return vec![v("repair-failed", format!("to_string fails after create_missing_prefixes: {:?}", e))],
            Err(_) => return vec![v("repair-failed", "to_string panics after create_missing_prefixes".to_string())],
        };
        // ... resolves to the model's names ...
        let root_for_names = n;
        let scanned = match xmlscan::scan(&text) {
            Ok(e) => e,
            Err(_) => return vec![], // lexical matters: C01/C03
        };
        let evs = xmlscan::resolve(&scanned);
        match evs {
            Ok(res) => {
                let exp = model_names(&post.model, root_for_names);
                let got: Vec<(String, String)> = res.iter().map(|r| (r.local.clone(), r.uri.clone())).collect();
                let want: Vec<(String, String)> = exp.iter().map(|(nm, _)| (nm.local.clone(), nm.uri.clone())).collect();
                if got != want {
                    return vec![v("name-meaning-changed", format!("after the repair {:?} resolves to {:?}, the tree has {:?}", text, got, want))];
                }
            }
            Err(e) => return vec![v("repair-failed", format!("after the repair {:?} is not namespace-well-formed: {}", text, e))],
        }
        // ... and reparses equal
        if let Err(e) = reparse_equal(post, n, &text) {
            return vec![e];
        }
        // no binding that some name depended on has been overridden (whole tree of n)
        let root = pre.model.root_of(n);
        let before = resolving_names(&pre.model, root);
        for (e, uri, is_attr) in before {
            if post.model.exists_live(e) && !resolvable(&post.model, e, &uri, is_attr) {
                return vec![v(
                    "binding-overridden",
                    format!("{} name in {:?} on {:?} resolved before create_missing_prefixes and does not any more", if is_attr { "attribute" } else { "element" }, uri, e),
                )];
            }
        }
    }
    vec![]
}

pub fn engine() -> ForestEngine {
    ForestEngine {
        cfg: ForestCfg { property: "C10", extra: Some(extra), shape, enumerate_every: 0, claim: Some(claim), fork_check: false },
        level: "exploration",
        quick_runs: 25_000,
        thorough_runs: 500_000,
        rule: "Seeded histories on a shared Xot with a namespace-heavy mix: documents with arbitrary declaration layouts (parse and creation), elements/attributes added in new or existing namespaces, subtrees moved, wrapped or cloned away from the declarations they relied on, no-namespace elements under a default namespace, declarations added/removed through the map and node APIs, and create_missing_prefixes on documents, fragments, elements (repeatedly). The ahash seed stream, which decides which missing namespace becomes n0, n1, ..., is reseeded per run by the simulator. After every step every document/element root is serialised: the result must be an error or a text whose element and attribute names - resolved by an independent namespace resolver over the text - equal the tree's expanded names. After create_missing_prefixes on a document/fragment/element: Ok; to_string Ok; the text resolves to the tree's names and reparses to the same names, attributes and content; nothing but namespace nodes was added; every name of the tree that resolved through an in-scope binding before still resolves. Non-trivial/distinct as for C04.",
    }
}
