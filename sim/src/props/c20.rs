//! C20 — the same document built three ways is the same tree. The *order* of
//! construction calls is the schedule: a seeded scheduler draws linear
//! extensions of the build plan (a node must exist before it is attached;
//! declarations and attributes keep their relative order) and chooses per
//! attachment among append / prepend / insert_before / insert_after /
//! new_document_with_element.

use crate::absdoc::{self, fx_doc, fx_elem, AContent, ADoc, AElem, GenCfg};
use crate::driver::{real_call, EngineFailure, PropEngine};
use crate::hashseam;
use crate::known::KnownFile;
use crate::model::Model;
use crate::rng::{Fnv, Rng};
use crate::stats::Stats;
use crate::world::{canon_r, read_tree, Violation, NODE_LIMIT};
use serde::{Deserialize, Serialize};
use serde_json::Value;
use xot::{Node, Xot};

fn v(class: &'static str, msg: String) -> Violation {
    Violation::new("C20", class, msg)
}

#[derive(Clone, Debug, Serialize, Deserialize)]
pub struct C20Replay {
    pub doc: ADoc,
    pub order_seed: u64,
    /// build with consolidation switched off (and on again afterwards) instead
    /// of keeping text nodes from becoming transiently adjacent
    pub cons_off: bool,
    pub hash_seed: u64,
    pub cdata_seed: u64,
}

// ------------------------------------------------------------------ fixed route

// ------------------------------------------------------------------ stepwise route

#[derive(Clone, Debug)]
enum AKind {
    Doc,
    Elem(usize), // index into elems
    Text(String),
    Comment(String),
    PI(String, Option<String>),
}
#[derive(Clone, Debug)]
struct ANode {
    kind: AKind,
    parent: Option<usize>,
    kids: Vec<usize>,
}
struct Flat<'a> {
    nodes: Vec<ANode>,
    elems: Vec<&'a AElem>,
}

fn flatten<'a>(d: &'a ADoc) -> Flat<'a> {
    let mut f = Flat { nodes: vec![ANode { kind: AKind::Doc, parent: None, kids: vec![] }], elems: vec![] };
    fn add_content<'a>(f: &mut Flat<'a>, c: &'a AContent, parent: usize) {
        let idx = match c {
            AContent::Elem(e) => return add_elem(f, e, parent),
            AContent::Text(t) => {
                f.nodes.push(ANode { kind: AKind::Text(t.clone()), parent: Some(parent), kids: vec![] });
                f.nodes.len() - 1
            }
            AContent::Comment(t) => {
                f.nodes.push(ANode { kind: AKind::Comment(t.clone()), parent: Some(parent), kids: vec![] });
                f.nodes.len() - 1
            }
            AContent::PI(t, d) => {
                f.nodes.push(ANode { kind: AKind::PI(t.clone(), d.clone()), parent: Some(parent), kids: vec![] });
                f.nodes.len() - 1
            }
        };
        f.nodes[parent].kids.push(idx);
    }
    fn add_elem<'a>(f: &mut Flat<'a>, e: &'a AElem, parent: usize) {
        f.elems.push(e);
        let ei = f.elems.len() - 1;
        f.nodes.push(ANode { kind: AKind::Elem(ei), parent: Some(parent), kids: vec![] });
        let idx = f.nodes.len() - 1;
        f.nodes[parent].kids.push(idx);
        for k in &e.kids {
            add_content(f, k, idx);
        }
    }
    for c in &d.before {
        add_content(&mut f, c, 0);
    }
    add_elem(&mut f, &d.root, 0);
    for c in &d.after {
        add_content(&mut f, c, 0);
    }
    f
}

#[derive(Clone, Copy, Debug, PartialEq, Eq)]
enum Task {
    Create(usize),
    Attach(usize),
    Decl(usize, usize),
    Attr(usize, usize),
    /// attach the second half of a text node that is being built from two pieces
    Piece2(usize),
}

fn name_id(x: &mut Xot, n: &crate::model::Nm) -> xot::NameId {
    let ns = x.add_namespace(&n.uri);
    x.add_name_ns(&n.local, ns)
}

/// Build the document stepwise under a seeded schedule. Returns the document
/// node and the written-out schedule.
fn build_stepwise(x: &mut Xot, d: &ADoc, rng: &mut Rng, cons_off: bool, bystander: Option<Node>, stats: &mut Stats) -> Result<(Node, Vec<String>), String> {
    let f = flatten(d);
    let n = f.nodes.len();
    let mut handle: Vec<Option<Node>> = vec![None; n];
    let mut attached = vec![false; n];
    let mut log: Vec<String> = vec![];
    let mut pending: Vec<Task> = vec![];
    for i in 0..n {
        pending.push(Task::Create(i));
        if i != 0 {
            pending.push(Task::Attach(i));
        }
        if let AKind::Elem(ei) = f.nodes[i].kind {
            for k in 0..f.elems[ei].decls.len() {
                pending.push(Task::Decl(i, k));
            }
            for k in 0..f.elems[ei].attrs.len() {
                pending.push(Task::Attr(i, k));
            }
        }
    }
    // with consolidation on, a text node may be built from two pieces that the store merges
    let mut second_piece: Vec<Option<String>> = vec![None; n];
    if !cons_off {
        for i in 0..n {
            if let AKind::Text(t) = &f.nodes[i].kind {
                let chars: Vec<char> = t.chars().collect();
                if chars.len() >= 2 && rng.pct(30) {
                    let mid = rng.range(1, chars.len() - 1);
                    second_piece[i] = Some(chars[mid..].iter().collect());
                    pending.push(Task::Piece2(i));
                }
            }
        }
    }
    let mut decl_done = vec![0usize; n];
    let mut attr_done = vec![0usize; n];
    // the document node may come into being through new_document_with_element
    let doc_elem_idx = *f.nodes[0].kids.iter().find(|k| matches!(f.nodes[**k].kind, AKind::Elem(_))).unwrap();
    let via_with_element = rng.pct(40);
    if cons_off {
        x.set_text_consolidation(false);
        log.push("set_text_consolidation(false)".into());
    }
    let is_text = |i: usize| matches!(f.nodes[i].kind, AKind::Text(_));
    while !pending.is_empty() {
        let ready: Vec<usize> = (0..pending.len())
            .filter(|pi| match pending[*pi] {
                Task::Create(i) => !(i == 0 && via_with_element && handle[doc_elem_idx].is_none()),
                Task::Attach(i) => {
                    let p = f.nodes[i].parent.unwrap();
                    if handle[i].is_none() {
                        return false;
                    }
                    if p == 0 && via_with_element && i == doc_elem_idx {
                        // attached by new_document_with_element itself
                        return false;
                    }
                    if handle[p].is_none() {
                        return false;
                    }
                    if !cons_off && is_text(i) {
                        // keep text nodes from becoming transiently adjacent: both
                        // abstract neighbours (non-text by construction) must be there
                        let sibs = &f.nodes[p].kids;
                        let pos = sibs.iter().position(|k| *k == i).unwrap();
                        let left_ok = pos == 0 || attached[sibs[pos - 1]];
                        let right_ok = pos + 1 == sibs.len() || attached[sibs[pos + 1]];
                        return left_ok && right_ok;
                    }
                    true
                }
                Task::Decl(i, k) => handle[i].is_some() && decl_done[i] == k,
                Task::Attr(i, k) => handle[i].is_some() && attr_done[i] == k,
                Task::Piece2(i) => attached[i],
            })
            .collect();
        if ready.is_empty() {
            return Err(format!("harness: schedule stuck with {:?}", pending));
        }
        // injected faults: calls that must be refused and must not change anything
        if rng.pct(12) {
            let made: Vec<usize> = (0..n).filter(|i| handle[*i].is_some()).collect();
            if let (Some(a), Some(b)) = (rng.pick_opt(&made).copied(), rng.pick_opt(&made).copied()) {
                let (ha, hb) = (handle[a].unwrap(), handle[b].unwrap());
                let a_elem = matches!(f.nodes[a].kind, AKind::Elem(_));
                let a_container = a_elem || matches!(f.nodes[a].kind, AKind::Doc);
                match rng.below(4) {
                    0 if !a_elem => {
                        let r = x.new_document_with_element(ha);
                        log.push(format!("refused? new_document_with_element(#{}) -> {}", a, r.is_err()));
                        stats.inc("fault/c20_refused_call");
                    }
                    1 if !a_container => {
                        let r = x.append(ha, hb);
                        log.push(format!("refused? append(#{}, #{}) -> {}", a, b, r.is_err()));
                        stats.inc("fault/c20_refused_call");
                    }
                    2 if matches!(f.nodes[b].kind, AKind::Doc) => {
                        let r = x.append(ha, hb);
                        log.push(format!("refused? append(#{}, document) -> {}", a, r.is_err()));
                        stats.inc("fault/c20_refused_call");
                    }
                    3 if a == b => {
                        let r = x.insert_after(ha, hb);
                        log.push(format!("refused? insert_after(#{}, #{}) -> {}", a, b, r.is_err()));
                        stats.inc("fault/c20_refused_call");
                    }
                    _ => {}
                }
            }
        }
        // other clients use the same store in between: calls on trees that have nothing to do with
        // the one under construction must not change how it comes out
        if rng.pct(6) {
            if let Some(other) = bystander {
                let nodes: Vec<Node> = x.descendants(other).take(64).collect();
                let n = *rng.pick(&nodes);
                match rng.below(4) {
                    0 => {
                        let c = x.clone_node(n);
                        log.push(format!("(bystander: clone_node of a {:?})", x.value_type(n)));
                        let _ = c;
                    }
                    1 => {
                        let _ = x.to_string(other);
                        log.push("(bystander: to_string)".into());
                    }
                    2 => {
                        let c = x.clone_with_prefixes(n);
                        let _ = c;
                        log.push(format!("(bystander: clone_with_prefixes of a {:?})", x.value_type(n)));
                    }
                    _ => {
                        let attrs: Vec<Node> = x.attribute_nodes(n).collect();
                        if let Some(a) = attrs.first() {
                            let _ = x.clone_node(*a);
                            log.push("(bystander: clone_node of an attribute node)".into());
                        }
                    }
                }
                stats.inc("probe/c20_bystander_call");
            }
        }
        let pi = *rng.pick(&ready);
        let task = pending.remove(pi);
        match task {
            Task::Create(i) => {
                let h = match &f.nodes[i].kind {
                    AKind::Doc => {
                        if via_with_element {
                            let e = handle[doc_elem_idx].unwrap();
                            attached[doc_elem_idx] = true;
                            pending.retain(|t| *t != Task::Attach(doc_elem_idx));
                            log.push(format!("new_document_with_element(#{})", doc_elem_idx));
                            stats.inc("probe/c20_new_document_with_element");
                            x.new_document_with_element(e).map_err(|e| format!("new_document_with_element: {:?}", e))?
                        } else {
                            log.push("new_document()".into());
                            x.new_document()
                        }
                    }
                    AKind::Elem(ei) => {
                        let nm = name_id(x, &f.elems[*ei].name);
                        log.push(format!("#{} = new_element({:?})", i, f.elems[*ei].name));
                        x.new_element(nm)
                    }
                    AKind::Text(t) => {
                        let first: String = match &second_piece[i] {
                            Some(second) => t[..t.len() - second.len()].to_string(),
                            None => t.clone(),
                        };
                        log.push(format!("#{} = new_text({:?})", i, first));
                        x.new_text(&first)
                    }
                    AKind::Comment(t) => {
                        log.push(format!("#{} = new_comment({:?})", i, t));
                        x.new_comment(t)
                    }
                    AKind::PI(t, d) => {
                        let nm = x.add_name(t);
                        log.push(format!("#{} = new_processing_instruction({:?},{:?})", i, t, d));
                        x.new_processing_instruction(nm, d.as_deref())
                    }
                };
                handle[i] = Some(h);
                // a node may spend the time until its attachment somewhere else in the store (assembled
                // under a scratch document or element) and is then moved, not attached fresh
                if i != 0 && rng.pct(10) {
                    let c = x.new_comment("scratch");
                    let holder = if matches!(f.nodes[i].kind, AKind::Elem(_)) && rng.pct(50) {
                        log.push(format!("park #{} under a scratch document, after a comment", i));
                        x.new_document()
                    } else {
                        log.push(format!("park #{} under a scratch element, after a comment", i));
                        let nm = x.add_name("scratch");
                        x.new_element(nm)
                    };
                    x.append(holder, c).map_err(|e| format!("park: {:?}", e))?;
                    x.append(holder, h).map_err(|e| format!("park: {:?}", e))?;
                    stats.inc("probe/c20_parked_before_attachment");
                }
            }
            Task::Attach(i) => {
                let p = f.nodes[i].parent.unwrap();
                let sibs = &f.nodes[p].kids;
                let pos = sibs.iter().position(|k| *k == i).unwrap();
                let left = sibs[..pos].iter().rev().find(|k| attached[**k]).copied();
                let right = sibs[pos + 1..].iter().find(|k| attached[**k]).copied();
                let mut methods: Vec<u8> = vec![];
                if right.is_none() {
                    methods.push(0); // append
                }
                if left.is_none() {
                    methods.push(1); // prepend
                }
                if left.is_some() {
                    methods.push(2); // insert_after(left)
                }
                if right.is_some() {
                    methods.push(3); // insert_before(right)
                }
                let ph = handle[p].unwrap();
                let ch = handle[i].unwrap();
                let m = *rng.pick(&methods);
                let r = match m {
                    0 => {
                        log.push(format!("append(#{}, #{})", p, i));
                        stats.inc("probe/c20_attach/append");
                        if rng.pct(20) {
                            x.any_append(ph, ch).map(|_| ())
                        } else {
                            x.append(ph, ch)
                        }
                    }
                    1 => {
                        log.push(format!("prepend(#{}, #{})", p, i));
                        stats.inc("probe/c20_attach/prepend");
                        x.prepend(ph, ch)
                    }
                    2 => {
                        log.push(format!("insert_after(#{}, #{})", left.unwrap(), i));
                        stats.inc("probe/c20_attach/insert_after");
                        x.insert_after(handle[left.unwrap()].unwrap(), ch)
                    }
                    _ => {
                        log.push(format!("insert_before(#{}, #{})", right.unwrap(), i));
                        stats.inc("probe/c20_attach/insert_before");
                        x.insert_before(handle[right.unwrap()].unwrap(), ch)
                    }
                };
                r.map_err(|e| format!("{}: {:?}", log.last().unwrap(), e))?;
                attached[i] = true;
                if !f.nodes[i].kids.is_empty() && f.nodes[i].kids.iter().any(|k| attached[*k]) {
                    stats.inc("probe/c20_subtree_attached_bottom_up");
                }
            }
            Task::Piece2(i) => {
                let second = second_piece[i].clone().unwrap();
                let p = f.nodes[i].parent.unwrap();
                let sibs = &f.nodes[p].kids;
                let pos = sibs.iter().position(|k| *k == i).unwrap();
                let right = sibs[pos + 1..].iter().find(|k| attached[**k]).copied();
                let t2 = x.new_text(&second);
                let first = handle[i].unwrap();
                let mut methods: Vec<u8> = vec![0];
                if right.is_some() {
                    methods.push(1);
                } else {
                    methods.push(2);
                }
                stats.inc("probe/c20_text_built_from_two_pieces");
                let r = match *rng.pick(&methods) {
                    0 => {
                        log.push(format!("insert_after(#{}, new_text({:?}))", i, second));
                        x.insert_after(first, t2)
                    }
                    1 => {
                        log.push(format!("insert_before(#{}, new_text({:?}))", right.unwrap(), second));
                        x.insert_before(handle[right.unwrap()].unwrap(), t2)
                    }
                    _ => {
                        log.push(format!("append(#{}, new_text({:?}))", p, second));
                        x.append(handle[p].unwrap(), t2)
                    }
                };
                r.map_err(|e| format!("{}: {:?}", log.last().unwrap(), e))?;
            }
            Task::Decl(i, k) => {
                let ei = if let AKind::Elem(ei) = f.nodes[i].kind { ei } else { unreachable!() };
                let (p, u) = &f.elems[ei].decls[k];
                let pid = x.add_prefix(p);
                let uid = x.add_namespace(u);
                let h = handle[i].unwrap();
                match rng.below(4) {
                    3 => {
                        log.push(format!("namespaces_mut(#{}).entry({:?}).or_insert({:?})", i, p, u));
                        x.namespaces_mut(h).entry(pid).or_insert(uid);
                    }
                    0 => {
                        log.push(format!("namespaces_mut(#{}).insert({:?},{:?})", i, p, u));
                        x.namespaces_mut(h).insert(pid, uid);
                    }
                    1 => {
                        log.push(format!("set_namespace(#{},{:?},{:?})", i, p, u));
                        x.set_namespace(h, pid, uid);
                    }
                    _ => {
                        log.push(format!("append_namespace_node(#{}, new_namespace_node({:?},{:?}))", i, p, u));
                        let nn = x.new_namespace_node(pid, uid);
                        x.append_namespace_node(h, nn).map_err(|e| format!("append_namespace_node: {:?}", e))?;
                        if rng.pct(15) {
                            // the same call again, with the node that is in place now: nothing may change
                            log.push("  (repeated with the same node)".into());
                            x.append_namespace_node(h, nn).map_err(|e| format!("append_namespace_node, repeated: {:?}", e))?;
                            stats.inc("probe/c20_node_style_call_repeated");
                        }
                    }
                }
                decl_done[i] += 1;
                if !f.nodes[i].kids.is_empty() && f.nodes[i].kids.iter().any(|k| attached[*k]) {
                    stats.inc("probe/c20_declaration_added_after_children");
                }
            }
            Task::Attr(i, k) => {
                let ei = if let AKind::Elem(ei) = f.nodes[i].kind { ei } else { unreachable!() };
                let (nm, _, val) = &f.elems[ei].attrs[k];
                let nid = name_id(x, nm);
                let h = handle[i].unwrap();
                match rng.below(6) {
                    4 => {
                        log.push(format!("attributes_mut(#{}).entry({:?}).or_insert({:?})", i, nm, val));
                        x.attributes_mut(h).entry(nid).or_insert(val.clone());
                    }
                    5 => {
                        log.push(format!("attributes_mut(#{}).entry({:?}).or_default() then set {:?}", i, nm, val));
                        let mut view = x.attributes_mut(h);
                        *view.entry(nid).or_default() = val.clone();
                    }
                    0 => {
                        log.push(format!("attributes_mut(#{}).insert({:?},{:?})", i, nm, val));
                        x.attributes_mut(h).insert(nid, val.clone());
                    }
                    1 => {
                        log.push(format!("set_attribute(#{},{:?},{:?})", i, nm, val));
                        x.set_attribute(h, nid, val.clone());
                    }
                    2 => {
                        log.push(format!("any_append(#{}, new_attribute_node({:?},{:?}))", i, nm, val));
                        let an = x.new_attribute_node(nid, val.clone());
                        x.any_append(h, an).map_err(|e| format!("any_append: {:?}", e))?;
                    }
                    _ => {
                        log.push(format!("append_attribute_node(#{}, new_attribute_node({:?},{:?}))", i, nm, val));
                        let an = x.new_attribute_node(nid, val.clone());
                        x.append_attribute_node(h, an).map_err(|e| format!("append_attribute_node: {:?}", e))?;
                        if rng.pct(15) {
                            log.push("  (repeated with the same node)".into());
                            x.append_attribute_node(h, an).map_err(|e| format!("append_attribute_node, repeated: {:?}", e))?;
                            stats.inc("probe/c20_node_style_call_repeated");
                        }
                    }
                }
                attr_done[i] += 1;
                if decl_done[i] < f.elems[ei].decls.len() {
                    stats.inc("probe/c20_attribute_added_before_all_declarations");
                }
                if !f.nodes[i].kids.is_empty() && f.nodes[i].kids.iter().any(|k| attached[*k]) {
                    stats.inc("probe/c20_attribute_added_after_children");
                }
            }
        }
    }
    if cons_off {
        x.set_text_consolidation(true);
        log.push("set_text_consolidation(true)".into());
    }
    Ok((handle[0].unwrap(), log))
}

// ------------------------------------------------------------------ the check

pub struct C20Engine;

fn canon_of(x: &Xot, root: Node) -> Result<String, Violation> {
    let mut budget = NODE_LIMIT;
    let t = read_tree(x, root, true, &mut budget)?;
    Ok(canon_r(&t))
}

fn run_replay(r: &C20Replay, stats: &mut Stats, sample: Option<&mut Vec<String>>) -> Option<Violation> {
    hashseam::reseed(r.hash_seed);
    let res = real_call(|| run_inner(r, stats, sample));
    match res {
        Ok(v) => v,
        Err(_) => Some(v("routes-differ", "a construction route panicked".to_string())),
    }
}

fn run_inner(r: &C20Replay, stats: &mut Stats, sample: Option<&mut Vec<String>>) -> Option<Violation> {
    let d = &r.doc;
    // the abstract document, as the model sees it
    let mut m = Model::new();
    m.begin_op(1);
    let aroot = absdoc::model_doc(&mut m, d);
    let expect = m.canon(aroot);
    let mut x = Xot::new();
    if r.cons_off {
        // the switch is store-wide: it is off for all three routes (build_stepwise switches it
        // back on at its end)
        x.set_text_consolidation(false);
    }
    // (a) parse of a rendering
    let mut coin = Rng::new(r.cdata_seed);
    let mut cdata = move || coin.pct(15);
    let text = absdoc::render_doc(d, false, &mut cdata);
    let a = match x.parse(&text) {
        Ok(n) => n,
        Err(e) => return Some(v("routes-differ", format!("rendering {:?} of the abstract document does not parse: {:?}", text, e))),
    };
    // (a') the same rendering as bytes in another encoding, through parse_bytes
    {
        let mut erng = Rng::new(r.cdata_seed ^ 0xe7c0);
        let latin1_ok = text.chars().all(|c| (c as u32) <= 0xFF);
        let (label, bytes): (&str, Vec<u8>) = match erng.below(6) {
            0 => ("UTF-8", text.as_bytes().to_vec()),
            1 => {
                let mut b = vec![0xEF, 0xBB, 0xBF];
                b.extend_from_slice(text.as_bytes());
                ("UTF-8 with BOM", b)
            }
            2 => {
                let mut b = vec![0xFF, 0xFE];
                for u in text.encode_utf16() {
                    b.extend_from_slice(&u.to_le_bytes());
                }
                ("UTF-16LE with BOM", b)
            }
            3 => {
                let mut b = vec![0xFE, 0xFF];
                for u in text.encode_utf16() {
                    b.extend_from_slice(&u.to_be_bytes());
                }
                ("UTF-16BE with BOM", b)
            }
            4 if latin1_ok => {
                let s = format!("<?xml version=\"1.0\" encoding=\"ISO-8859-1\"?>{}", text);
                ("ISO-8859-1, declared", s.chars().map(|c| c as u32 as u8).collect())
            }
            _ => {
                let s = format!("<?xml version=\"1.0\" encoding=\"UTF-8\"?>{}", text);
                ("UTF-8, declared", s.into_bytes())
            }
        };
        stats.inc(&format!("probe/c20_parse_bytes/{}", label));
        match real_call(|| x.parse_bytes(&bytes)) {
            Ok(Ok(n)) => match canon_of(&x, n) {
                Ok(s) if s == expect => {}
                Ok(s) => return Some(v("routes-differ", format!("route parse_bytes ({}) gives {} but the abstract document is {}", label, s, expect))),
                Err(viol) => return Some(v("routes-differ", format!("route parse_bytes ({}): {}", label, viol.msg))),
            },
            Ok(Err(e)) => return Some(v("routes-differ", format!("the rendering {:?} parses as a string but not as {} bytes: {:?}", text, label, e))),
            Err(_) => return Some(v("routes-differ", format!("parse_bytes of the {} rendering unwinds", label))),
        }
    }
    // (b) fixed:: structure
    let mut split_coin = Rng::new(r.cdata_seed ^ 0x5a5a);
    let cons_off = r.cons_off;
    let mut split = move || !cons_off && split_coin.pct(25);
    let b = fx_doc(d, &mut split).xotify(&mut x);
    // (c) stepwise, seeded order
    let mut rng = Rng::new(r.order_seed);
    let (c, log) = match build_stepwise(&mut x, d, &mut rng, r.cons_off, Some(a), stats) {
        Ok(v) => v,
        Err(e) => {
            if e.starts_with("harness") {
                panic!("{}", e);
            }
            return Some(v("routes-differ", format!("stepwise construction was refused: {}", e)));
        }
    };
    if let Some(s) = sample {
        *s = log.clone();
    }
    // (b') fixed::Element::xotify of the document element alone must equal the document element
    let be = fx_elem(&d.root, &mut split).xotify(&mut x);
    match (x.document_element(b), canon_of(&x, be)) {
        (Ok(de), Ok(ce)) => {
            let mut budget = NODE_LIMIT;
            let sub = crate::world::read_tree(&x, b, true, &mut budget).ok().and_then(|t| t.kids.into_iter().find(|k| k.node == de));
            let cd = sub.map(|t| canon_r(&t)).unwrap_or_default();
            if cd != ce || !x.deep_equal(de, be) {
                return Some(v("routes-differ", format!("fixed::Element::xotify gives {} but the document element of fixed::Document::xotify is {}", ce, cd)));
            }
        }
        (_, Err(viol)) => return Some(v("routes-differ", format!("fixed::Element::xotify: {}", viol.msg))),
        (Err(e), _) => return Some(v("routes-differ", format!("fixed::Document::xotify has no document element: {:?}", e))),
    }
    let routes = [("parse", a), ("fixed::xotify", b), ("stepwise", c)];
    let mut strings = vec![];
    for (name, root) in routes.iter() {
        let got = match canon_of(&x, *root) {
            Ok(s) => s,
            Err(viol) => return Some(v("routes-differ", format!("route {}: tree is not structurally valid: {}", name, viol.msg))),
        };
        if got != expect {
            // leading / trailing content misplaced?
            let class = if !d.before.is_empty() || !d.after.is_empty() {
                let kids: Vec<Node> = x.children(*root).collect();
                if kids.len() != d.before.len() + 1 + d.after.len() {
                    "misc-placement"
                } else {
                    "routes-differ"
                }
            } else {
                "routes-differ"
            };
            return Some(v(class, format!("route {} gives {} but the abstract document is {} (schedule: {:?})", name, got, expect, if *name == "stepwise" { log.clone() } else { vec![] })));
        }
        match x.to_string(*root) {
            Ok(s) => strings.push(s),
            Err(e) => return Some(v("serialisation-differs", format!("route {}: to_string fails: {:?}", name, e))),
        }
    }
    for i in 0..3 {
        for j in 0..3 {
            if i != j && !x.deep_equal(routes[i].1, routes[j].1) {
                return Some(v("routes-differ", format!("deep_equal({}, {}) is false", routes[i].0, routes[j].0)));
            }
        }
    }
    if strings[0] != strings[1] || strings[0] != strings[2] {
        return Some(v("serialisation-differs", format!("parse: {:?}; fixed: {:?}; stepwise: {:?}", strings[0], strings[1], strings[2])));
    }
    // the serialisation must parse back to the same abstract document (a declaration of the
    // built-in pair xmlns:xml=... is never written, so it is not there after the round trip)
    let expect = {
        fn strip(e: &mut AElem) {
            e.decls.retain(|(p, u)| !(p == "xml" && u == absdoc::XML_NS));
            for k in e.kids.iter_mut() {
                if let AContent::Elem(c) = k {
                    strip(c);
                }
            }
        }
        let mut d2 = d.clone();
        strip(&mut d2.root);
        let mut m2 = Model::new();
        m2.begin_op(1);
        let r2 = absdoc::model_doc(&mut m2, &d2);
        m2.canon(r2)
    };
    match x.parse(&strings[0]) {
        Ok(n) => match canon_of(&x, n) {
            Ok(s) if s == expect => {}
            Ok(s) => return Some(v("serialisation-differs", format!("reparse of {:?} gives {}, expected {}", strings[0], s, expect))),
            Err(viol) => return Some(v("serialisation-differs", viol.msg)),
        },
        Err(e) => return Some(v("serialisation-differs", format!("serialisation {:?} does not parse: {:?}", strings[0], e))),
    }
    stats.steps += log.len() as u64;
    None
}

impl PropEngine for C20Engine {
    fn id(&self) -> &'static str {
        "C20"
    }
    fn level(&self) -> &'static str {
        "exploration"
    }
    fn default_runs(&self, thorough: bool) -> u64 {
        if thorough {
            3_000_000
        } else {
            300_000
        }
    }
    fn run_one(&self, run_index: u64, run_seed: u64, _known: &KnownFile, stats: &mut Stats) -> Option<EngineFailure> {
        let mut rng = Rng::new(run_seed);
        let mut cfg = GenCfg::swarm(&mut rng);
        cfg.xml_id_pct = cfg.xml_id_pct.min(10);
        cfg.xml_prefix_decl_pct = *rng.pick(&[0u32, 0, 3, 10]);
        if rng.pct(50) {
            cfg.misc_pct = cfg.misc_pct.max(40);
        }
        let doc = absdoc::gen_doc(&mut rng, &cfg);
        let r = C20Replay { doc, order_seed: rng.next(), cons_off: rng.pct(30), hash_seed: rng.next(), cdata_seed: rng.next() };
        stats.runs += 1;
        if r.cons_off {
            stats.inc("swarm/built_with_consolidation_off");
        }
        if !r.doc.after.is_empty() {
            stats.inc("probe/c20_trailing_content");
        }
        if !r.doc.before.is_empty() {
            stats.inc("probe/c20_leading_content");
        }
        let mut sample = vec![];
        let res = run_replay(&r, stats, Some(&mut sample));
        let mut h = Fnv::new();
        h.str(&serde_json::to_string(&r.doc).unwrap());
        let nodes = absdoc::count_elem(&r.doc.root) + r.doc.before.len() + r.doc.after.len();
        let mut hs = Fnv::new();
        for l in &sample {
            hs.str(l);
        }
        stats.set_insert("states", h.0);
        if nodes >= 4 {
            stats.set_insert("nontrivial_traces", hs.0 ^ h.0);
        }
        stats.digest ^= crate::rng::mix(run_index, hs.0 ^ h.0, res.is_some() as u64);
        if run_index < 2 {
            stats.samples.insert(run_index, serde_json::json!({"document": absdoc::render_doc(&r.doc, false, &mut || false), "stepwise_schedule": sample}));
        }
        res.map(|viol| EngineFailure { violation: viol, replay: serde_json::to_value(&r).unwrap() })
    }
    fn minimise(&self, f: EngineFailure, _known: &KnownFile) -> EngineFailure {
        let mut r: C20Replay = serde_json::from_value(f.replay.clone()).unwrap();
        let class = f.violation.class;
        let mut viol = f.violation.clone();
        let mut st = Stats::default();
        let mut progress = true;
        while progress {
            progress = false;
            for cand in absdoc::shrink_candidates(&r.doc) {
                let mut c = r.clone();
                c.doc = cand;
                if let Some(v2) = run_replay(&c, &mut st, None) {
                    if v2.class == class {
                        r = c;
                        viol = v2;
                        progress = true;
                        break;
                    }
                }
            }
        }
        EngineFailure { violation: viol, replay: serde_json::to_value(&r).unwrap() }
    }
    fn replay(&self, replay: &Value, _known: &KnownFile, stats: &mut Stats) -> Option<Violation> {
        let r: C20Replay = match serde_json::from_value(replay.clone()) {
            Ok(r) => r,
            Err(e) => {
                eprintln!("harness error: bad C20 replay: {}", e);
                std::process::exit(2);
            }
        };
        run_replay(&r, stats, None)
    }
    fn rule(&self) -> String {
        "Abstract documents (generator shared with the other checks: namespaces with usable prefixes incl. default and shadowing, attributes, text, CDATA in the rendering, comments, PIs, leading and trailing top-level comments/PIs) are realised (a) by parsing a rendering, (b) through fixed::Document::xotify (and fixed::Element::xotify of the root element alone, which must equal the document element), (c) stepwise under a seeded schedule: a linear extension of the build plan (create before attach; declarations and attributes in relative order, otherwise anywhere — before or after children, interleaved), per attachment a seeded choice among append / any_append / prepend / insert_after(left sibling) / insert_before(right sibling) / new_document_with_element, per declaration/attribute among the map-style and node-style calls; text nodes are either kept from becoming transiently adjacent or consolidation is switched off for all three routes; 12% of the scheduling points inject a call that must be refused (new_document_with_element of a non-element, append under a leaf, append of the document node, insert_after(x, x)) and must change nothing. All three read-backs must equal the abstract document (incl. declarations per element and the placement of leading/trailing content), deep_equal pairwise, to_string identical, and the text must reparse to the abstract document. Distinct = distinct (document, schedule) digest; non-trivial = at least 4 nodes.".to_string()
    }
    fn assumptions(&self) -> Vec<String> {
        vec![
            "the abstract-document generator only emits XML-representable documents whose namespaced names have a usable prefix in scope".into(),
            "characters whose escaping is C01's subject (CR; TAB/LF/CR in attribute values) are not in the content alphabet".into(),
            "sampling of documents and construction orders: evidence, not proof".into(),
        ]
    }
}
