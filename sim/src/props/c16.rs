//! C16 — token / event streams and `Write` routes reproduce the string route.
//! The `Write` seam is simulated: each write call of a serialisation can be
//! answered with a short write, `Interrupted`, `Ok(0)` or a hard error; for
//! small documents every write-call index x every fault kind is enumerated.
//! Streams are pulled lazily, dropped early, and re-pulled after mutations.

use crate::absdoc::{self, ADoc, GenCfg};
use crate::driver::{real_call, EngineFailure, PropEngine};
use crate::hashseam;
use crate::known::KnownFile;
use crate::model::Kind;
use crate::rng::{Fnv, Rng};
use crate::stats::Stats;
use crate::world::{nm_of, read_tree, RNode, Violation, NODE_LIMIT};
use serde::{Deserialize, Serialize};
use serde_json::Value;
use std::io::{self, Write};
use xot::output::xml::{Declaration, DocType, Parameters};
use xot::output::{Indentation, NoopNormalizer, Normalizer, Output, TokenSerializeParameters};
use xot::{NameId, Node, Xot};

fn v(class: &'static str, msg: String) -> Violation {
    Violation::new("C16", class, msg)
}

#[derive(Clone, Debug, Serialize, Deserialize)]
pub struct C16Replay {
    pub doc: ADoc,
    pub obs_seed: u64,
    pub hash_seed: u64,
    pub enumerate_sink: bool,
    /// when set: the tree is parse_fragment of this text (several top-level elements, top-level
    /// text) instead of the document
    #[serde(default)]
    pub fragment: Option<String>,
}

// ------------------------------------------------------------------ simulated sink

#[derive(Clone, Copy, Debug, PartialEq, Eq)]
pub enum SinkFault {
    Full,
    Short(usize),
    Interrupted,
    Zero,
    Hard,
}

pub struct SimSink {
    pub accepted: Vec<u8>,
    pub calls: usize,
    /// fault per write-call index; beyond the end: Full
    pub schedule: Vec<SinkFault>,
    pub dead: Option<SinkFault>,
    pub fired: [u64; 5],
}

impl SimSink {
    pub fn healthy() -> Self {
        SimSink { accepted: vec![], calls: 0, schedule: vec![], dead: None, fired: [0; 5] }
    }
    pub fn with(schedule: Vec<SinkFault>) -> Self {
        SimSink { accepted: vec![], calls: 0, schedule, dead: None, fired: [0; 5] }
    }
}

impl Write for SimSink {
    fn write(&mut self, buf: &[u8]) -> io::Result<usize> {
        let i = self.calls;
        self.calls += 1;
        if buf.is_empty() {
            return Ok(0);
        }
        let f = match self.dead {
            Some(d) => d,
            None => self.schedule.get(i).copied().unwrap_or(SinkFault::Full),
        };
        match f {
            SinkFault::Full => {
                self.accepted.extend_from_slice(buf);
                Ok(buf.len())
            }
            SinkFault::Short(k) => {
                let n = k.clamp(1, buf.len());
                if n < buf.len() {
                    self.fired[1] += 1;
                }
                self.accepted.extend_from_slice(&buf[..n]);
                Ok(n)
            }
            SinkFault::Interrupted => {
                self.fired[2] += 1;
                Err(io::Error::new(io::ErrorKind::Interrupted, "simulated EINTR"))
            }
            SinkFault::Zero => {
                self.fired[3] += 1;
                self.dead = Some(SinkFault::Zero);
                Ok(0)
            }
            SinkFault::Hard => {
                self.fired[4] += 1;
                self.dead = Some(SinkFault::Hard);
                Err(io::Error::new(io::ErrorKind::Other, "simulated disk error"))
            }
        }
    }
    fn flush(&mut self) -> io::Result<()> {
        Ok(())
    }
}

// ------------------------------------------------------------------ expected events

#[derive(Clone, Debug, PartialEq, Eq)]
enum Ev {
    Open(Node, crate::model::Nm),
    Prefix(Node, String, String),
    Attr(Node, crate::model::Nm, String),
    Close(Node),
    End(Node, crate::model::Nm),
    Text(Node, String),
    Comment(Node, String),
    PI(Node, crate::model::Nm, Option<String>),
}

fn expected_events(r: &RNode, out: &mut Vec<Ev>) {
    match &r.kind {
        Kind::Doc => {
            for k in &r.kids {
                expected_events(k, out);
            }
        }
        Kind::Elem(nm) => {
            out.push(Ev::Open(r.node, nm.clone()));
            for n in &r.ns {
                if let Kind::Ns(p, u) = &n.kind {
                    out.push(Ev::Prefix(r.node, p.clone(), u.clone()));
                }
            }
            for a in &r.attrs {
                if let Kind::Attr(n, val) = &a.kind {
                    out.push(Ev::Attr(r.node, n.clone(), val.clone()));
                }
            }
            out.push(Ev::Close(r.node));
            for k in &r.kids {
                expected_events(k, out);
            }
            out.push(Ev::End(r.node, nm.clone()));
        }
        Kind::Text(t) => out.push(Ev::Text(r.node, t.clone())),
        Kind::Comment(t) => out.push(Ev::Comment(r.node, t.clone())),
        Kind::PI(t, d) => out.push(Ev::PI(r.node, t.clone(), d.clone())),
        Kind::Attr(..) | Kind::Ns(..) => {}
    }
}

fn actual_events(x: &Xot, node: Node, limit: usize) -> Vec<Ev> {
    let mut out = vec![];
    for (n, o) in x.outputs(node).take(limit) {
        out.push(match o {
            Output::StartTagOpen(e) => Ev::Open(n, nm_of(x, e.name())),
            Output::StartTagClose => Ev::Close(n),
            Output::EndTag(e) => Ev::End(n, nm_of(x, e.name())),
            Output::Prefix(p, u) => Ev::Prefix(n, x.prefix_str(p).to_string(), x.namespace_str(u).to_string()),
            Output::Attribute(a, val) => Ev::Attr(n, nm_of(x, a), val.to_string()),
            Output::Text(t) => Ev::Text(n, t.to_string()),
            Output::Comment(t) => Ev::Comment(n, t.to_string()),
            Output::ProcessingInstruction(t, d) => Ev::PI(n, nm_of(x, t), d.map(|s| s.to_string())),
        });
    }
    out
}

/// read the subtree below `node` (attached or not) through the public accessors
fn read_sub(x: &Xot, node: Node) -> Result<RNode, Violation> {
    let root = x.root(node);
    let mut budget = NODE_LIMIT;
    let t = read_tree(x, root, false, &mut budget)?;
    fn find<'a>(r: &'a RNode, n: Node) -> Option<&'a RNode> {
        if r.node == n {
            return Some(r);
        }
        for c in r.ns.iter().chain(r.attrs.iter()).chain(r.kids.iter()) {
            if let Some(f) = find(c, n) {
                return Some(f);
            }
        }
        None
    }
    find(&t, node).cloned().ok_or_else(|| v("events-differ", "harness: observed node not found below its root".into()))
}

/// bindings in scope at `node` from its ancestors' declarations (nearest first) plus xml
fn inherited_scope(x: &Xot, node: Node) -> Vec<(String, String)> {
    let mut out: Vec<(String, String)> = vec![];
    let mut cur = x.parent(node);
    let mut guard = 0;
    while let Some(a) = cur {
        for (p, u) in x.namespaces(a).iter() {
            let p = x.prefix_str(p).to_string();
            if !out.iter().any(|(q, _)| *q == p) {
                out.push((p, x.namespace_str(*u).to_string()));
            }
        }
        cur = x.parent(a);
        guard += 1;
        if guard > NODE_LIMIT {
            break;
        }
    }
    if !out.iter().any(|(q, _)| q == "xml") {
        out.push(("xml".to_string(), "http://www.w3.org/XML/1998/namespace".to_string()));
    }
    out
}

// ------------------------------------------------------------------ one observation

struct Obs {
    node: Node,
    cdata: Vec<NameId>,
    unescaped_gt: bool,
    suppress: Vec<NameId>,
    declaration: Option<Declaration>,
    doctype: Option<DocType>,
}

/// a deterministic stand-in for a Unicode normalizer: decomposes 'é' and upper-cases 'x'
#[derive(Clone, Copy)]
struct TestNormalizer;
impl Normalizer for TestNormalizer {
    fn normalize<'a>(&self, content: std::borrow::Cow<'a, str>) -> std::borrow::Cow<'a, str> {
        if content.contains('\u{e9}') || content.contains('x') {
            std::borrow::Cow::Owned(content.replace('\u{e9}', "e\u{301}").replace('x', "X"))
        } else {
            content
        }
    }
}

fn tparams(o: &Obs) -> TokenSerializeParameters {
    TokenSerializeParameters { cdata_section_elements: o.cdata.clone(), unescaped_gt: o.unescaped_gt }
}
fn params(o: &Obs, pretty: bool, with_decl: bool) -> Parameters {
    Parameters {
        indentation: if pretty { Some(Indentation { suppress: o.suppress.clone() }) } else { None },
        cdata_section_elements: o.cdata.clone(),
        declaration: if with_decl { o.declaration.clone() } else { None },
        doctype: if with_decl { o.doctype.clone() } else { None },
        unescaped_gt: o.unescaped_gt,
    }
}

fn element_names(x: &Xot, node: Node) -> Vec<NameId> {
    let mut out: Vec<NameId> = vec![];
    for n in x.descendants(node).take(NODE_LIMIT) {
        if let Some(e) = x.element(n) {
            if !out.contains(&e.name()) {
                out.push(e.name());
            }
        }
    }
    out
}

fn observe(x: &Xot, o: &Obs, rng: &mut Rng, enumerate_sink: bool, stats: &mut Stats) -> Result<(), Violation> {
    // ---- the string route; unserialisable (sub)trees are outside the property's domain
    let plain = match real_call(|| x.serialize_xml_string(params(o, false, false), o.node)) {
        Ok(Ok(s)) => s,
        Ok(Err(_)) => {
            stats.inc("probe/c16_not_serialisable_skipped");
            return Ok(());
        }
        Err(_) => {
            stats.inc("probe/c16_string_route_panicked_skipped");
            return Ok(());
        }
    };
    stats.inc("probe/c16_observations");
    if !o.cdata.is_empty() {
        stats.inc("probe/c16_with_cdata_section_elements");
    }
    // ---- (i) tokens
    let toks = real_call(|| {
        let mut s = String::new();
        let mut n = 0usize;
        for (_node, _out, t) in x.tokens(o.node, tparams(o), NoopNormalizer) {
            if t.space {
                s.push(' ');
            }
            s.push_str(&t.text);
            n += 1;
        }
        (s, n)
    });
    let ntokens = match toks {
        Ok((s, n)) => {
            if s != plain {
                return Err(v("tokens-differ", format!("tokens() concatenates to {:?}, serialize_xml_string gives {:?}", s, plain)));
            }
            n
        }
        Err(_) => return Err(v("tokens-differ", format!("tokens() panicked although the string route gives {:?}", plain))),
    };
    // ---- (ii) pretty tokens
    let pretty = match real_call(|| x.serialize_xml_string(params(o, true, false), o.node)) {
        Ok(Ok(s)) => s,
        _ => return Err(v("pretty-differ", "the pretty string route fails although the plain one succeeds".to_string())),
    };
    let ptoks = real_call(|| {
        let mut s = String::new();
        for (_node, _out, t) in x.pretty_tokens(o.node, tparams(o), &o.suppress, NoopNormalizer) {
            if t.indentation > 0 {
                s.push_str(&" ".repeat(t.indentation * 2));
            }
            if t.space {
                s.push(' ');
            }
            s.push_str(&t.text);
            if t.newline {
                s.push('\n');
            }
        }
        s
    });
    match ptoks {
        Ok(s) => {
            if s != pretty {
                return Err(v("pretty-differ", format!("pretty_tokens() give {:?}, the pretty string is {:?}", s, pretty)));
            }
        }
        Err(_) => return Err(v("pretty-differ", "pretty_tokens() panicked".to_string())),
    }
    // ---- (i') / (ii') the same two comparisons under a caller-supplied normalizer
    if let Ok(Ok(nplain)) = real_call(|| x.serialize_xml_string_with_normalizer(params(o, false, false), o.node, TestNormalizer)) {
        let toks = real_call(|| {
            let mut s = String::new();
            for (_n, _o, t) in x.tokens(o.node, tparams(o), TestNormalizer) {
                if t.space {
                    s.push(' ');
                }
                s.push_str(&t.text);
            }
            s
        });
        match toks {
            Ok(s) if s == nplain => {}
            Ok(s) => return Err(v("tokens-differ", format!("with a normalizer: tokens() give {:?}, the string route {:?}", s, nplain))),
            Err(_) => return Err(v("tokens-differ", "tokens() with a normalizer panicked".to_string())),
        }
        if nplain != plain {
            stats.inc("probe/c16_normalizer_changed_the_text");
        }
        if let Ok(Ok(npretty)) = real_call(|| x.serialize_xml_string_with_normalizer(params(o, true, false), o.node, TestNormalizer)) {
            let pt = real_call(|| {
                let mut s = String::new();
                for (_n, _o, t) in x.pretty_tokens(o.node, tparams(o), &o.suppress, TestNormalizer) {
                    if t.indentation > 0 {
                        s.push_str(&" ".repeat(t.indentation * 2));
                    }
                    if t.space {
                        s.push(' ');
                    }
                    s.push_str(&t.text);
                    if t.newline {
                        s.push('\n');
                    }
                }
                s
            });
            match pt {
                Ok(s) if s == npretty => {}
                Ok(s) => return Err(v("pretty-differ", format!("with a normalizer: pretty_tokens() give {:?}, the pretty string {:?}", s, npretty))),
                Err(_) => return Err(v("pretty-differ", "pretty_tokens() with a normalizer panicked".to_string())),
            }
        }
        // the Write route with a normalizer
        let mut sink = SimSink::healthy();
        let r = real_call(|| x.serialize_xml_write_with_normalizer(params(o, false, false), o.node, &mut sink, TestNormalizer));
        if !matches!(r, Ok(Ok(()))) || sink.accepted != nplain.as_bytes() {
            return Err(v("write-differs", format!("serialize_xml_write_with_normalizer wrote {:?}, the string route gives {:?}", String::from_utf8_lossy(&sink.accepted), nplain)));
        }
    }
    // ---- (iii) output events
    let sub = read_sub(x, o.node)?;
    let mut exp = vec![];
    expected_events(&sub, &mut exp);
    let got = actual_events(x, o.node, exp.len() * 2 + 64);
    // the top element may carry extra Prefix events for bindings inherited from its ancestors
    let mut got_f: Vec<Ev> = vec![];
    if let Kind::Elem(_) = &sub.kind {
        let scope = inherited_scope(x, o.node);
        let own: Vec<String> = sub.ns.iter().filter_map(|n| if let Kind::Ns(p, _) = &n.kind { Some(p.clone()) } else { None }).collect();
        let mut in_top_tag = false;
        let mut own_seen = 0usize;
        let mut announced: Vec<(String, String)> = vec![];
        for e in &got {
            match e {
                Ev::Open(n, _) if *n == o.node => {
                    in_top_tag = true;
                    got_f.push(e.clone());
                }
                Ev::Close(n) if *n == o.node => {
                    in_top_tag = false;
                    got_f.push(e.clone());
                }
                Ev::Prefix(n, p, u) if in_top_tag && *n == o.node && own_seen == 0 && !own.contains(p) => {
                    // must be a binding really in scope
                    if !scope.iter().any(|(sp, su)| sp == p && su == u) {
                        return Err(v("events-differ", format!("outputs(): top element announces {}={} which is not in scope", p, u)));
                    }
                    stats.inc("probe/c16_inherited_prefix_events");
                    announced.push((p.clone(), u.clone()));
                }
                Ev::Prefix(..) if in_top_tag => {
                    own_seen += 1;
                    got_f.push(e.clone());
                }
                _ => got_f.push(e.clone()),
            }
        }
        // ... and all of them: every inherited binding that the element does not redeclare
        // (the undeclared default namespace is no binding)
        let mut expected: Vec<(String, String)> =
            scope.iter().filter(|(p, u)| !own.contains(p) && !(p.is_empty() && u.is_empty())).cloned().collect();
        expected.sort();
        announced.sort();
        if announced != expected {
            return Err(v(
                "events-differ",
                format!("outputs(): the top element announces the inherited bindings {:?}, in scope are {:?}", announced, expected),
            ));
        }
    } else {
        got_f = got.clone();
    }
    if got_f != exp {
        let i = got_f.iter().zip(exp.iter()).position(|(a, b)| a != b).unwrap_or(got_f.len().min(exp.len()));
        return Err(v(
            "events-differ",
            format!("outputs() differs from the tree at event {}: got {:?}, expected {:?} ({} vs {} events)", i, got_f.get(i), exp.get(i), got_f.len(), exp.len()),
        ));
    }
    // ---- lazily pulled, dropped early
    if ntokens > 1 {
        let k = rng.below(ntokens);
        let r = real_call(|| {
            let mut it = x.tokens(o.node, tparams(o), NoopNormalizer);
            for _ in 0..k {
                it.next();
            }
            drop(it);
            let mut it2 = x.outputs(o.node);
            it2.next();
            drop(it2);
        });
        if r.is_err() {
            return Err(v("tokens-differ", "pulling a token stream partially and dropping it panicked".to_string()));
        }
        stats.inc("fault/stream_dropped_early");
    }
    // ---- (iv) Write routes through the simulated sink
    let full = match real_call(|| x.serialize_xml_string(params(o, rng_bool(rng), true), o.node)) {
        Ok(Ok(s)) => Some(s),
        _ => None, // doctype on a non-element etc.: error paths are not this property's subject
    };
    // route A: Xot::write (default parameters) vs to_string
    write_route(x, o, None, &plain_default(x, o.node), rng, enumerate_sink, stats)?;
    // route B: serialize_xml_write with the drawn parameters (plain or pretty, declaration, doctype)
    if let Some(full) = full {
        // regenerate the same parameters deterministically
        write_route(x, o, Some(full.clone()), &full, rng, enumerate_sink, stats)?;
    }
    Ok(())
}

fn rng_bool(rng: &mut Rng) -> bool {
    // parameters for route B are drawn once per observation and remembered in a thread local
    let b = rng.pct(40);
    PRETTY_B.with(|p| p.set(b));
    b
}
thread_local! {
    static PRETTY_B: std::cell::Cell<bool> = std::cell::Cell::new(false);
}

fn plain_default(x: &Xot, node: Node) -> String {
    match real_call(|| x.to_string(node)) {
        Ok(Ok(s)) => s,
        _ => String::new(),
    }
}

fn do_write(x: &Xot, o: &Obs, route_b: bool, sink: &mut SimSink) -> Result<Result<(), String>, ()> {
    let pretty = PRETTY_B.with(|p| p.get());
    let r = real_call(|| {
        if route_b {
            x.serialize_xml_write(params(o, pretty, true), o.node, sink)
        } else {
            x.write(o.node, sink)
        }
    });
    match r {
        Ok(Ok(())) => Ok(Ok(())),
        Ok(Err(e)) => Ok(Err(format!("{:?}", e))),
        Err(_) => Err(()),
    }
}

fn write_route(
    x: &Xot,
    o: &Obs,
    route_b: Option<String>,
    expect: &str,
    rng: &mut Rng,
    enumerate_sink: bool,
    stats: &mut Stats,
) -> Result<(), Violation> {
    let is_b = route_b.is_some();
    let name = if is_b { "serialize_xml_write" } else { "write" };
    // healthy sink: same bytes, count the write calls
    let mut healthy = SimSink::healthy();
    match do_write(x, o, is_b, &mut healthy) {
        Ok(Ok(())) => {}
        other => return Err(v("write-differs", format!("{} to a healthy sink fails ({:?}) although the string route succeeds", name, other))),
    }
    if healthy.accepted != expect.as_bytes() {
        return Err(v(
            "write-differs",
            format!("{} wrote {:?}, the string route gives {:?}", name, String::from_utf8_lossy(&healthy.accepted), expect),
        ));
    }
    let ncalls = healthy.calls;
    stats.add("probe/c16_write_calls_seen", ncalls as u64);
    // transparent schedule: short writes and EINTR at seeded calls
    let mut sched = vec![];
    for _ in 0..ncalls * 3 + 8 {
        sched.push(match rng.below(10) {
            0 | 1 => SinkFault::Short(rng.range(1, 6)),
            2 => SinkFault::Interrupted,
            _ => SinkFault::Full,
        });
    }
    let mut s = SimSink::with(sched);
    let r = do_write(x, o, is_b, &mut s);
    stats.add("fault/sink_short_write", s.fired[1]);
    stats.add("fault/sink_interrupted", s.fired[2]);
    match r {
        Ok(Ok(())) => {
            if s.accepted != expect.as_bytes() {
                return Err(v(
                    "write-differs",
                    format!("{} through a sink with short writes / EINTR delivered {:?}, expected {:?}", name, String::from_utf8_lossy(&s.accepted), expect),
                ));
            }
        }
        other => {
            return Err(v(
                "write-differs",
                format!("{} fails ({:?}) on a sink that only writes short or is interrupted (both are transparent for write_all)", name, other),
            ))
        }
    }
    // fault enumeration: every write call index x every fault kind (small documents), else sampled
    let indices: Vec<usize> = if enumerate_sink && ncalls <= 80 {
        stats.inc("enumeration/sink_fault_points_complete");
        (0..ncalls).collect()
    } else {
        (0..6.min(ncalls)).map(|_| rng.below(ncalls)).collect()
    };
    for i in indices {
        for kind in [SinkFault::Short(1), SinkFault::Interrupted, SinkFault::Zero, SinkFault::Hard] {
            let mut sched = vec![SinkFault::Full; i];
            sched.push(kind);
            let mut s = SimSink::with(sched);
            let r = do_write(x, o, is_b, &mut s);
            stats.inc("enumeration/calls");
            match kind {
                SinkFault::Short(_) | SinkFault::Interrupted => {
                    stats.add("fault/sink_short_write", s.fired[1]);
                    stats.add("fault/sink_interrupted", s.fired[2]);
                    if !matches!(r, Ok(Ok(()))) || s.accepted != expect.as_bytes() {
                        return Err(v(
                            "write-differs",
                            format!("{}: {:?} at write call {} is not transparent: result {:?}, delivered {:?}, expected {:?}", name, kind, i, r, String::from_utf8_lossy(&s.accepted), expect),
                        ));
                    }
                }
                _ => {
                    stats.add("fault/sink_zero_write", s.fired[3]);
                    stats.add("fault/sink_hard_error", s.fired[4]);
                    match &r {
                        Ok(Ok(())) => {
                            // the fault fired on a call that mattered: success must mean everything arrived
                            if s.fired[3] + s.fired[4] > 0 {
                                return Err(v("write-not-prefix", format!("{} reports success although the sink failed at write call {}", name, i)));
                            }
                        }
                        Ok(Err(_)) => stats.inc("probe/c16_sink_error_returned_as_Err"),
                        Err(()) => stats.inc("probe/c16_sink_error_unwound_as_panic"),
                    }
                    if !expect.as_bytes().starts_with(&s.accepted) {
                        return Err(v(
                            "write-not-prefix",
                            format!("{}: after {:?} at call {} the sink holds {:?} which is not a prefix of {:?}", name, kind, i, String::from_utf8_lossy(&s.accepted), expect),
                        ));
                    }
                    // once faults stop a write to a healthy sink produces the full text
                    let mut again = SimSink::healthy();
                    let r2 = do_write(x, o, is_b, &mut again);
                    if !matches!(r2, Ok(Ok(()))) || again.accepted != expect.as_bytes() {
                        return Err(v("no-recovery", format!("{}: after a sink fault a write to a healthy sink gives {:?}", name, r2)));
                    }
                }
            }
        }
    }
    Ok(())
}

// ------------------------------------------------------------------ run

fn run_replay(r: &C16Replay, stats: &mut Stats, sample: Option<&mut Vec<String>>) -> Option<Violation> {
    hashseam::reseed(r.hash_seed);
    let mut rng = Rng::new(r.obs_seed);
    let mut x = Xot::new();
    let mut coin = rng.fork();
    let mut cdata = move || coin.pct(10);
    let text = match &r.fragment {
        Some(t) => t.clone(),
        None => absdoc::render_doc(&r.doc, false, &mut cdata),
    };
    let parsed = if r.fragment.is_some() { x.parse_fragment(&text) } else { x.parse(&text) };
    let doc = match parsed {
        Ok(d) => d,
        Err(e) => return Some(v("write-differs", format!("harness: rendering does not parse: {:?} {:?}", text, e))),
    };
    let mut log: Vec<String> = vec![format!("parse {:?}", text)];
    let rounds = rng.range(1, 3);
    for round in 0..rounds {
        // choose the observed node: document, document element, or any node below with a parent
        let all: Vec<Node> = x.descendants(doc).take(NODE_LIMIT).collect();
        let node = match rng.below(4) {
            0 => doc,
            1 => x.document_element(doc).unwrap_or(doc),
            _ => *rng.pick(&all),
        };
        let names = element_names(&x, doc);
        let mut subset = |rng: &mut Rng, pct: u32| -> Vec<NameId> {
            let mut out: Vec<NameId> = names.iter().copied().filter(|_| rng.pct(pct)).collect();
            // callers pass these lists in any order
            if out.len() > 1 && rng.pct(50) {
                out.reverse();
            }
            if out.len() > 2 && rng.pct(50) {
                let i = rng.below(out.len());
                out.swap(0, i);
            }
            out
        };
        let cd = if rng.pct(50) { subset(&mut rng, 40) } else { vec![] };
        let sup = if rng.pct(40) { subset(&mut rng, 30) } else { vec![] };
        let o = Obs {
            node,
            cdata: cd,
            unescaped_gt: rng.pct(30),
            suppress: sup,
            declaration: if rng.pct(30) {
                Some(Declaration {
                    encoding: if rng.pct(50) { Some("UTF-8".into()) } else { None },
                    standalone: *rng.pick(&[None, Some(true), Some(false)]),
                })
            } else {
                None
            },
            doctype: if rng.pct(15) && x.is_document(node) {
                Some(if rng.pct(50) {
                    DocType::System { system: "a.dtd".into() }
                } else {
                    DocType::Public { public: "-//X//Y".into(), system: "a.dtd".into() }
                })
            } else {
                None
            },
        };
        log.push(format!(
            "observe round {} node {:?} cdata {} unescaped_gt {} suppress {} decl {} doctype {}",
            round,
            x.value_type(node),
            o.cdata.len(),
            o.unescaped_gt,
            o.suppress.len(),
            o.declaration.is_some(),
            o.doctype.is_some()
        ));
        if let Err(e) = observe(&x, &o, &mut rng, r.enumerate_sink, stats) {
            if let Some(s) = sample {
                *s = log;
            }
            return Some(e);
        }
        stats.steps += 1;
        // ---- mutate, then re-pull
        let elems: Vec<Node> = x.descendants(doc).take(NODE_LIMIT).filter(|n| x.is_element(*n)).collect();
        if let Some(e) = rng.pick_opt(&elems).copied() {
            match rng.below(11) {
                7 => {
                    // text built from pieces: adjacent text nodes exist only while consolidation is off;
                    // pieces that form markup-significant sequences across the boundary
                    x.set_text_consolidation(false);
                    for _ in 0..rng.range(2, 3) {
                        let piece = rng.pick_str(&["]]", ">", "]", "]>", "a\rb", "\r", " ", "x", "&", "<", "]]>"]);
                        let _ = x.append_text(e, piece);
                    }
                    if rng.pct(70) {
                        x.set_text_consolidation(true);
                    }
                    log.push("append adjacent text pieces".into());
                    stats.inc("probe/c16_adjacent_text_pieces");
                }
                8 => {
                    // whitespace handling is inherited: a subtree observed later may lie below this
                    let sp = x.xml_space_name();
                    x.set_attribute(e, sp, rng.pick_str(&["preserve", "preserve", "default"]));
                    log.push("set xml:space".into());
                    stats.inc("probe/c16_xml_space_set");
                }
                10 => {
                    // the xml prefix bound to something else on this element (the API and the parser
                    // allow it); explicit declarations of the built-in pair below get their meaning
                    // from being written there
                    let xp = x.xml_prefix();
                    let other = x.add_namespace("urn:not-xml");
                    x.namespaces_mut(e).insert(xp, other);
                    let first_elem = x.children(e).find(|c| x.is_element(*c));
                    if let Some(c) = first_elem {
                        let xn = x.xml_namespace();
                        x.namespaces_mut(c).insert(xp, xn);
                    }
                    log.push("rebind the xml prefix, redeclare it below".into());
                    stats.inc("probe/c16_xml_prefix_rebound");
                }
                9 => {
                    // character data without markup characters but with characters that need a reference
                    let _ = x.append_text(e, rng.pick_str(&["a\rb", "\r", "tab\tnl\ncr\r", "\u{85}\u{2028}"]));
                    log.push("append_text with CR".into());
                    stats.inc("probe/c16_text_with_cr");
                }
                5 => {
                    // an empty text node (the parser never makes one, the API does)
                    let t = x.new_text("");
                    let _ = x.append(e, t);
                    if rng.pct(50) {
                        let c = x.new_comment("after-empty");
                        let _ = x.append(e, c);
                    }
                    log.push("append empty text node".into());
                    stats.inc("probe/c16_empty_text_node");
                }
                6 => {
                    // one very large token now and then (write coalescing, buffers)
                    if rng.pct(25) {
                        let big = "long text & more <markup> ".repeat(400);
                        if rng.pct(50) {
                            let _ = x.append_text(e, &big);
                        } else {
                            let nm = x.add_name("big");
                            x.set_attribute(e, nm, big);
                        }
                        log.push("large token".into());
                        stats.inc("probe/c16_token_larger_than_8k");
                    }
                }
                0 => {
                    let nm = x.add_name("added");
                    x.set_attribute(e, nm, "a<b>\"c");
                    log.push("set_attribute".into());
                }
                1 => {
                    let _ = x.append_text(e, "x]]>y > z");
                    log.push("append_text".into());
                }
                2 => {
                    if let Some(c) = x.first_child(e) {
                        let _ = x.remove(c);
                        log.push("remove first child".into());
                    }
                }
                3 => {
                    let ns = x.add_namespace("urn:deep");
                    let nm = x.add_name_ns("deep", ns);
                    let pf = x.add_prefix("dp");
                    // nest a chain of elements to reach deep indentation
                    let mut cur = e;
                    for _ in 0..rng.range(1, 24) {
                        let c = x.new_element(nm);
                        let _ = x.append(cur, c);
                        cur = c;
                    }
                    x.set_namespace(e, pf, ns);
                    log.push("append deep chain".into());
                    stats.inc("probe/c16_deep_chain");
                }
                _ => {
                    let nm = x.add_name("pi");
                    let _ = x.append_processing_instruction(e, nm, Some("d"));
                    log.push("append_processing_instruction".into());
                }
            }
        }
    }
    if let Some(s) = sample {
        *s = log;
    }
    None
}

pub struct C16Engine;

impl PropEngine for C16Engine {
    fn id(&self) -> &'static str {
        "C16"
    }
    fn level(&self) -> &'static str {
        "fault_enumeration"
    }
    fn default_runs(&self, thorough: bool) -> u64 {
        if thorough {
            400_000
        } else {
            30_000
        }
    }
    fn run_one(&self, run_index: u64, run_seed: u64, _known: &KnownFile, stats: &mut Stats) -> Option<EngineFailure> {
        let mut rng = Rng::new(run_seed);
        let mut cfg = GenCfg::swarm(&mut rng);
        cfg.xml_prefix_decl_pct = *rng.pick(&[0u32, 0, 5]);
        cfg.xml_id_pct = cfg.xml_id_pct.min(10);
        let doc = absdoc::gen_doc(&mut rng, &cfg);
        let mut r = C16Replay { doc, obs_seed: rng.next(), hash_seed: rng.next(), enumerate_sink: run_index % 3 == 0, fragment: None };
        if run_index % 5 == 4 {
            let mut frng = Rng::new(rng.next());
            r.fragment = Some(crate::gen::gen_xml_text(&mut frng, true));
            stats.inc("swarm/c16_fragment_with_several_top_level_nodes");
        }
        stats.runs += 1;
        let mut sample = vec![];
        let res = run_replay(&r, stats, Some(&mut sample));
        let mut h = Fnv::new();
        h.str(&serde_json::to_string(&r.doc).unwrap());
        h.u64(r.obs_seed);
        stats.set_insert("states", h.0);
        if absdoc::count_elem(&r.doc.root) >= 3 {
            stats.set_insert("nontrivial_traces", h.0);
        }
        stats.digest ^= crate::rng::mix(run_index, h.0, res.is_some() as u64);
        if run_index < 2 {
            stats.samples.insert(run_index, serde_json::json!(sample));
        }
        res.map(|viol| EngineFailure { violation: viol, replay: serde_json::to_value(&r).unwrap() })
    }
    fn minimise(&self, f: EngineFailure, _known: &KnownFile) -> EngineFailure {
        let mut r: C16Replay = serde_json::from_value(f.replay.clone()).unwrap();
        let class = f.violation.class;
        let mut viol = f.violation.clone();
        let mut st = Stats::default();
        let mut progress = true;
        while progress {
            progress = false;
            for cand in absdoc::shrink_candidates(&r.doc) {
                let mut c = r.clone();
                c.doc = cand;
                if let Some(v2) = run_replay(&c, &mut st, None) {
                    if v2.class == class {
                        r = c;
                        viol = v2;
                        progress = true;
                        break;
                    }
                }
            }
        }
        EngineFailure { violation: viol, replay: serde_json::to_value(&r).unwrap() }
    }
    fn replay(&self, replay: &Value, _known: &KnownFile, stats: &mut Stats) -> Option<Violation> {
        let r: C16Replay = match serde_json::from_value(replay.clone()) {
            Ok(r) => r,
            Err(e) => {
                eprintln!("harness error: bad C16 replay: {}", e);
                std::process::exit(2);
            }
        };
        run_replay(&r, stats, None)
    }
    fn rule(&self) -> String {
        "Generated documents are parsed; 1-3 rounds of (observe, mutate) per run. An observation draws the observed node (document, document element, any node below), a subset of the present element names as CDATA-section elements (in arbitrary order) and as suppress list, unescaped_gt, declaration and doctype, then checks: tokens() concatenated (space flag) = serialize_xml_string; pretty_tokens() with indentation/newline applied = pretty string; both again, and serialize_xml_write_with_normalizer, under a caller-supplied Normalizer; outputs() = the event list derived from a read-back of the tree, each event tagged with its node (inherited prefix events on the top element must be exactly the in-scope bindings the element does not redeclare); streams pulled partially and dropped. Write routes (Xot::write and serialize_xml_write with the drawn parameters) go through a simulated sink: healthy, a seeded schedule of short writes and EINTR (must be transparent), and - completely for documents with <= 80 write calls in every third run, sampled otherwise - every write-call index x {short write, Interrupted, Ok(0), hard error}: transparent kinds must deliver the string route's bytes, failing kinds must leave a prefix of them in the sink and a following write to a healthy sink must deliver everything. Mutations between rounds include deep element chains (indentation > 16 levels). Distinct = distinct (document, observation seed); non-trivial = at least 3 nodes.".to_string()
    }
    fn assumptions(&self) -> Vec<String> {
        vec![
            "how a hard sink error is reported (Err or unwinding) is recorded but not judged: the property does not say (observation O1 in DESIGN §7)".into(),
            "trees that the string route cannot serialise are outside the property's domain and skipped (counted)".into(),
            "sampling of documents and parameters: evidence, not proof; the sink fault points are enumerated completely only for documents with <= 80 write calls".into(),
        ]
    }
}
