//! C12 — a clone is equal to its source and shares nothing with it.
//! clone_node / clone_with_prefixes of nodes of all kinds at random steps of a
//! forest simulation, followed by mutation histories on either side with the
//! other side required constant; `Xot::clone` as a store fork: every call is
//! executed on the store itself and on a clone of it and must give identical
//! results, while a third copy taken before must stay unchanged.

use super::forest_props::ForestEngine;
use crate::driver::real_call;
use crate::engine::StepInfo;
use crate::forest::{ForestCfg, TraceOp};
use crate::gen::Profile;
use crate::model::{Kind, Lid, K};
use crate::ops::Op;
use crate::rng::Rng;
use crate::stats::Stats;
use crate::world::{real_tree_matches_model, Violation, World};
use crate::xmlscan;

fn v(class: &'static str, msg: String) -> Violation {
    Violation::new("C12", class, msg)
}

fn shape(p: &mut Profile, r: &mut Rng) {
    p.w_clone += 12;
    p.w_move += 5;
    p.w_value += 3;
    p.w_map += 3;
    p.fault_pct = p.fault_pct.min(10);
    if r.pct(40) {
        p.flip_pm = p.flip_pm.max(30);
    }
    // bursts that re-bind the xml prefix above names that use it and copy something out from below
    p.motif_pct = *r.pick(&[0u32, 2, 4]);
}

/// the root of the tree of `l` in the world before the step
fn side_root(w: &World, l: Lid) -> Option<Lid> {
    if w.model.exists_live(l) {
        Some(w.model.root_of(l))
    } else {
        None
    }
}

fn claim(viol: &Violation, op: &Op, pre: &World, info: &StepInfo) -> Option<Violation> {
    if !matches!(viol.property, "C05" | "C04") {
        return None;
    }
    if let Op::CloneNode { .. } | Op::CloneWithPrefixes { .. } = op {
        let class = if viol.msg.contains("existing") { "clone-shares-node" } else { "clone-differs" };
        return Some(v(class, format!("{}: {}", op.name(), viol.msg)));
    }
    // a later mutation of one side must leave the other untouched
    let post = info.failed_post.as_ref()?;
    let arg_roots: Vec<Lid> = op.node_args().iter().filter_map(|a| side_root(pre, *a)).collect();
    if arg_roots.is_empty() {
        return None;
    }
    for (src, cl) in &pre.clone_pairs {
        let (sr, cr) = match (side_root(pre, *src), side_root(pre, *cl)) {
            (Some(a), Some(b)) => (a, b),
            _ => continue,
        };
        if sr == cr {
            continue;
        }
        for (active, other) in [(sr, cr), (cr, sr)] {
            if arg_roots.iter().all(|r| *r == active) {
                if let Ok(Err(e)) = real_call(|| real_tree_matches_model(post, &pre.model, other)) {
                    return Some(v(
                        "other-side-changed",
                        format!("{} on the tree of {:?} changed the tree of {:?} (its clone/source): {}", op.name(), active, other, e),
                    ));
                }
            }
        }
    }
    None
}

fn extra(pre: &World, post: &mut World, t: &TraceOp, info: &StepInfo, stats: &mut Stats) -> Vec<Violation> {
    if info.outcome != "ok" {
        return vec![];
    }
    let (src, with_prefixes) = match &t.op {
        Op::CloneNode { n } => (*n, false),
        Op::CloneWithPrefixes { n } => (*n, true),
        _ => return vec![],
    };
    let cl = match post.clone_pairs.last() {
        Some((s, c)) if *s == src => *c,
        _ => return vec![],
    };
    stats.inc(&format!("probe/c12_clone_of/{}", pre.model.k(src).short()));
    let sh = post.h(src);
    let ch = post.h(cl);
    // made entirely of nodes that did not exist before
    for l in post.model.subtree(cl) {
        let h = post.h(l);
        if pre.rev.contains_key(&h) {
            return vec![v("clone-shares-node", format!("clone node {:?} is a handle that existed before the call", l))];
        }
    }
    if post.xot.parent(ch).is_some() {
        return vec![v("clone-differs", "the clone is attached to a parent".to_string())];
    }
    // deep equality as the library itself defines it, when no text merging is involved
    let src_has_adjacent = {
        let m = &post.model;
        m.subtree(src).iter().any(|l| m.n(*l).kids.windows(2).any(|w| m.is_text(w[0]) && m.is_text(w[1])))
    };
    if !src_has_adjacent {
        if !with_prefixes {
            if !post.xot.deep_equal(sh, ch) {
                return vec![v("clone-differs", format!("deep_equal(source {:?}, clone) is false", src))];
            }
            stats.inc("probe/c12_deep_equal_checked");
        }
    } else {
        stats.inc("probe/c12_clone_of_source_with_adjacent_text");
        // up to merging: the character data must be the same
        if matches!(post.model.k(src), K::Doc | K::Elem) && post.xot.string_value(sh) != post.xot.string_value(ch) {
            return vec![v("clone-differs", "string value of the clone differs from the source".to_string())];
        }
    }
    // same declarations and attribute order on every element (model level: the engine compared
    // the clone with the model's copy; for clone_with_prefixes the copy is adopted, so compare here)
    if with_prefixes {
        let m = &post.model;
        let a = m.subtree(src);
        let b = m.subtree(cl);
        // compare everything except namespace nodes added on the top element
        let strip = |list: &Vec<Lid>, top: Lid| -> Vec<Kind> {
            list.iter()
                .filter(|l| !(m.k(**l) == K::Ns && m.n(**l).parent == Some(top)))
                .map(|l| m.n(*l).kind.clone())
                .collect()
        };
        if !src_has_adjacent && strip(&a, src) != strip(&b, cl) {
            return vec![v("clone-differs", format!("clone_with_prefixes({:?}) is not a copy of its source", src))];
        }
        // own declarations of the source stay first and unchanged
        let own: Vec<Kind> = m.n(src).ns.iter().map(|l| m.n(*l).kind.clone()).collect();
        let got: Vec<Kind> = m.n(cl).ns.iter().map(|l| m.n(*l).kind.clone()).collect();
        if m.k(src) == K::Elem && (got.len() < own.len() || got[..own.len()] != own[..]) {
            return vec![v("clone-differs", format!("clone_with_prefixes({:?}) changed the element's own declarations", src))];
        }
        // serialises on its own whenever the source serialised in place
        if m.k(src) == K::Elem {
            let s_src = real_call(|| post.xot.to_string(sh));
            let s_cl = real_call(|| post.xot.to_string(ch));
            if let Ok(Ok(ts)) = s_src {
                stats.inc("probe/c12_with_prefixes_source_serialised");
                match s_cl {
                    Ok(Ok(tc)) => {
                        // the clone's text must resolve to the clone's expanded names
                        let rb = xmlscan::scan(&tc).and_then(|e| xmlscan::resolve(&e));
                        if let Ok(rb) = rb {
                            let got: Vec<(String, String)> = rb.iter().map(|e| (e.local.clone(), e.uri.clone())).collect();
                            let exp: Vec<(String, String)> = m
                                .subtree(cl)
                                .iter()
                                .filter_map(|l| if let Kind::Elem(n) = &m.n(*l).kind { Some((n.local.clone(), n.uri.clone())) } else { None })
                                .collect();
                            // (a no-namespace element inside a default-namespace scope is C10's subject)
                            let no_ns_under_default = rb.iter().zip(exp.iter()).any(|(r, e)| e.1.is_empty() && !r.uri.is_empty());
                            if got != exp && !no_ns_under_default {
                                return vec![v("prefixes-missing", format!("clone_with_prefixes({:?}): source serialises as {:?}, clone as {:?} which resolves to {:?}, expected {:?}", src, ts, tc, got, exp))];
                            }
                        }
                    }
                    Ok(Err(e)) => {
                        return vec![v(
                            "prefixes-missing",
                            format!("source {:?} serialises in place ({:?}) but its clone_with_prefixes does not: {:?}", src, ts, e),
                        )];
                    }
                    Err(_) => return vec![v("prefixes-missing", "serialising the clone panicked".to_string())],
                }
            }
        }
    }
    vec![]
}

pub fn engine() -> ForestEngine {
    ForestEngine {
        cfg: ForestCfg { property: "C12", extra: Some(extra), shape, enumerate_every: 0, claim: Some(claim), fork_check: true },
        level: "exploration",
        quick_runs: 40_000,
        thorough_runs: 500_000,
        rule: "Seeded histories with clone_node / clone_with_prefixes of nodes of all seven kinds at random steps (consolidation in either state, adjacent text present), then mutations on either side. At clone time: the clone must equal the model's copy (merging of adjacent text when consolidation is on), deep_equal(source, clone) holds, the clone consists only of handles that did not exist before, the source and every other tree read back unchanged; clone_with_prefixes: copy plus declarations, own declarations first, and if the source serialises in place the clone serialises alone to the same expanded names. Later steps: the whole forest is compared with the model after every call, and a mismatch on the clone's or the source's tree caused by a call on the other side is reported as other-side-changed. Xot::clone: every call is executed on the store itself and on a clone of it (same hash-seed stream) and must give identical outcome, forest and serialisations, while a third clone taken before the call must read back unchanged. Non-trivial/distinct as for C04.",
    }
}
