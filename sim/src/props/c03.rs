//! C03 — the parser is total, rejects ill-formed text, accepts only sound trees.
//! Fault injection on documents at rest in a store shared with other clients:
//! every document of a seeded corpus is damaged by every fault of a catalogue
//! at every applicable position and parsed, with every entry point, into a
//! store in which other clients hold live trees.

use crate::absdoc::{self, GenCfg};
use crate::driver::{real_call, EngineFailure, PropEngine};
use crate::hashseam;
use crate::known::KnownFile;
use crate::rng::{Fnv, Rng};
use crate::stats::Stats;
use crate::world::{canon_r, read_tree, Violation, NODE_LIMIT};
use crate::xmlscan;
use serde::{Deserialize, Serialize};
use serde_json::Value;
use xot::{Node, Xot};

fn v(class: &'static str, msg: String) -> Violation {
    Violation::new("C03", class, msg)
}

#[derive(Clone, Copy, Debug, PartialEq, Eq, Serialize, Deserialize)]
pub enum Entry {
    Parse,
    Fragment,
    Bytes,
    ParseSpan,
    FragmentSpan,
}
const ENTRIES: [Entry; 5] = [Entry::Parse, Entry::Fragment, Entry::Bytes, Entry::ParseSpan, Entry::FragmentSpan];

/// what the catalogue knows about a damaged document
#[derive(Clone, Copy, Debug, PartialEq, Eq, Serialize, Deserialize)]
pub enum Expect {
    /// outcome unknown: must be total and sound
    Any,
    /// ill-formed by construction for every entry point: must be rejected
    Reject,
    /// ill-formed as a document, fine as a fragment
    RejectAsDocument,
    /// still well-formed: must be accepted and round-trip
    Accept,
}

#[derive(Clone, Debug, Serialize, Deserialize)]
pub struct Case {
    pub kind: String,
    pub bytes: Vec<u8>,
    pub expect: Expect,
}

#[derive(Clone, Debug, Serialize, Deserialize)]
pub struct C03Replay {
    pub hash_seed: u64,
    /// another client has switched text consolidation off in the shared store
    #[serde(default)]
    pub cons_off: bool,
    /// texts parsed first: the other clients' live trees
    pub residents: Vec<String>,
    pub case: Case,
    pub entry: Entry,
    /// earlier parses into the same store without which the case does not fail (what a parse
    /// leaves in the name / namespace / prefix tables can matter to a later one)
    #[serde(default)]
    pub history: Vec<(Case, Entry)>,
}

// ------------------------------------------------------------------ token spans of generator output

#[derive(Clone, Debug)]
struct STag {
    start: usize,
    end: usize, // one past '>'
    name: (usize, usize),
    /// (name span, value span without quotes)
    attrs: Vec<((usize, usize), (usize, usize))>,
    empty: bool,
}
#[derive(Clone, Debug)]
struct Spans {
    stags: Vec<STag>,
    etags: Vec<(usize, usize, (usize, usize))>,
    texts: Vec<(usize, usize)>,
    root_end: usize,
    root_start: usize,
}

fn spans(s: &str) -> Option<Spans> {
    let b = s.as_bytes();
    let mut i = 0;
    let mut out = Spans { stags: vec![], etags: vec![], texts: vec![], root_end: 0, root_start: usize::MAX };
    let mut depth = 0usize;
    while i < b.len() {
        if b[i] != b'<' {
            let j = s[i..].find('<').map(|x| i + x).unwrap_or(b.len());
            if depth > 0 {
                out.texts.push((i, j));
            }
            i = j;
            continue;
        }
        if s[i..].starts_with("<![CDATA[") {
            i = s[i..].find("]]>")? + i + 3;
        } else if s[i..].starts_with("<!--") {
            i = s[i + 4..].find("-->")? + i + 7;
        } else if s[i..].starts_with("<?") {
            i = s[i..].find("?>")? + i + 2;
        } else if s[i..].starts_with("</") {
            let j = s[i..].find('>')? + i;
            out.etags.push((i, j + 1, (i + 2, j)));
            depth = depth.saturating_sub(1);
            if depth == 0 {
                out.root_end = j + 1;
            }
            i = j + 1;
        } else {
            let start = i;
            let mut j = i + 1;
            while j < b.len() && !b[j].is_ascii_whitespace() && b[j] != b'>' && b[j] != b'/' {
                j += 1;
            }
            let name = (i + 1, j);
            let mut attrs = vec![];
            let mut empty = false;
            loop {
                while j < b.len() && b[j].is_ascii_whitespace() {
                    j += 1;
                }
                if j >= b.len() {
                    return None;
                }
                if b[j] == b'>' {
                    j += 1;
                    break;
                }
                if b[j] == b'/' {
                    empty = true;
                    j += 2;
                    break;
                }
                let k = s[j..].find('=')? + j;
                let q = k + 1;
                let e = s[q + 1..].find('"')? + q + 1;
                attrs.push(((j, k), (q + 1, e)));
                j = e + 1;
            }
            if depth == 0 && out.root_start == usize::MAX {
                out.root_start = start;
            }
            out.stags.push(STag { start, end: j, name, attrs, empty });
            if !empty {
                depth += 1;
            } else if depth == 0 {
                out.root_end = j;
            }
            i = j;
        }
    }
    Some(out)
}

fn splice(s: &str, at: usize, del: usize, ins: &str) -> String {
    let mut o = String::with_capacity(s.len() + ins.len());
    o.push_str(&s[..at]);
    o.push_str(ins);
    o.push_str(&s[at + del..]);
    o
}

// ------------------------------------------------------------------ the catalogue

/// every edit that is ill-formed by construction (or known to stay well-formed),
/// at every applicable position of `text`
fn structural_cases(text: &str, out: &mut Vec<Case>) {
    let sp = match spans(text) {
        Some(s) => s,
        None => return,
    };
    let mut push = |kind: &str, s: String, e: Expect| out.push(Case { kind: kind.to_string(), bytes: s.into_bytes(), expect: e });
    // end tags
    for (st, en, (ns, ne)) in &sp.etags {
        push("delete-end-tag", splice(text, *st, en - st, ""), Expect::Reject);
        push("rename-end-tag", splice(text, *ne, 0, "x"), Expect::Reject);
        push("stray-end-tag", splice(text, *st, 0, "</zz>"), Expect::Reject);
        let _ = ns;
    }
    // an end tag written with another prefix for the same namespace: the expanded names match,
    // the names as written do not
    {
        let mut order: Vec<(usize, bool, usize)> = vec![]; // (position, is_start, index)
        for (i, t) in sp.stags.iter().enumerate() {
            if !t.empty {
                order.push((t.start, true, i));
            }
        }
        for (i, e) in sp.etags.iter().enumerate() {
            order.push((e.0, false, i));
        }
        order.sort();
        let mut stack: Vec<usize> = vec![];
        let mut pairs: Vec<(usize, usize)> = vec![];
        for (_, is_start, i) in order {
            if is_start {
                stack.push(i);
            } else if let Some(si) = stack.pop() {
                pairs.push((si, i));
            }
        }
        if let Ok(evs) = xmlscan::scan(text) {
            if let Ok(res) = xmlscan::resolve(&evs) {
                if res.len() == sp.stags.len() {
                    for (si, ei) in pairs {
                        let uri = &res[si].uri;
                        if uri.is_empty() {
                            continue;
                        }
                        let t = &sp.stags[si];
                        let e = &sp.etags[ei];
                        // rewrite the end tag first (it lies behind the start tag)
                        let s1 = splice(text, e.2 .0, e.2 .1 - e.2 .0, &format!("zs:{}", res[si].local));
                        let mut esc = String::new();
                        absdoc::esc_attr(uri, &mut esc);
                        let s2 = splice(&s1, t.name.1, 0, &format!(" xmlns:zs=\"{}\"", esc));
                        push("end-tag-with-synonymous-prefix", s2, Expect::Reject);
                        // the synonym is the default namespace: prefixed start tag, unprefixed end tag
                        if text[t.name.0..t.name.1].contains(':') {
                            let s1 = splice(text, e.2 .0, e.2 .1 - e.2 .0, &res[si].local);
                            let s2 = splice(&s1, t.name.1, 0, &format!(" xmlns=\"{}\"", esc));
                            push("end-tag-unprefixed-for-prefixed-start-tag", s2, Expect::Reject);
                        }
                    }
                }
            }
        }
    }
    // duplicate by expanded name where one of the two prefixes is inherited from the root
    if let Ok(evs) = xmlscan::scan(text) {
        if let Ok(res) = xmlscan::resolve(&evs) {
            if res.len() == sp.stags.len() && !sp.stags.is_empty() {
                let root = &sp.stags[0];
                for (si, t) in sp.stags.iter().enumerate().skip(1) {
                    if let Some((l, u, _)) = res[si].attrs.iter().find(|(_, u, _)| !u.is_empty() && u != "http://www.w3.org/XML/1998/namespace") {
                        if let Some(last) = t.attrs.last() {
                            let mut esc = String::new();
                            absdoc::esc_attr(u, &mut esc);
                            // the later insertion first, so that offsets stay valid
                            let s1 = splice(text, last.1 .1 + 1, 0, &format!(" zi:{}=\"dup\"", l));
                            let s2 = splice(&s1, root.name.1, 0, &format!(" xmlns:zi=\"{}\"", esc));
                            push("duplicate-attribute-by-expanded-name-inherited-prefix", s2, Expect::Reject);
                            // both prefixes inherited
                            let s1 = splice(text, t.name.1, 0, " zi:dup2=\"1\" zj:dup2=\"2\"");
                            let s2 = splice(&s1, root.name.1, 0, &format!(" xmlns:zi=\"{}\" xmlns:zj=\"{}\"", esc, esc));
                            push("duplicate-attribute-by-expanded-name-both-prefixes-inherited", s2, Expect::Reject);
                        }
                    }
                    // both prefixes inherited on every kind of element — with and without declarations or
                    // attributes of its own (a duplicate check that only runs for elements that declare
                    // something misses the element that declares nothing)
                    let s1 = splice(text, t.name.1, 0, " zk:dup3=\"1\" zl:dup3=\"2\"");
                    let s2 = splice(&s1, root.name.1, 0, " xmlns:zk=\"urn:zdup\" xmlns:zl=\"urn:zdup\"");
                    push("duplicate-attribute-both-prefixes-inherited-any-element", s2, Expect::Reject);
                }
            }
        }
    }
    // a declaration whose scope ended must stay ended however many elements were open below it: a
    // prefix declared on an element with a chain of 63 .. 130 nested descendants, used by a later sibling
    if let Some(root) = sp.stags.first() {
        if !root.empty && root.start == sp.root_start {
            for depth in [63usize, 64, 65, 66, 130] {
                let mut ins = String::from("<zd xmlns:zp=\"urn:zdeep\">");
                for _ in 0..depth {
                    ins.push_str("<zn>");
                }
                for _ in 0..depth {
                    ins.push_str("</zn>");
                }
                ins.push_str("</zd><zp:leak/>");
                push("prefix-used-after-deep-scope-ended", splice(text, root.end, 0, &ins), Expect::Reject);
            }
        }
    }
    // swap two adjacent end tags with different names (mismatched nesting)
    for w in sp.etags.windows(2) {
        let (a, b) = (&w[0], &w[1]);
        if a.1 == b.0 && text[a.2 .0..a.2 .1] != text[b.2 .0..b.2 .1] {
            let mut s = String::new();
            s.push_str(&text[..a.0]);
            s.push_str(&text[b.0..b.1]);
            s.push_str(&text[a.0..a.1]);
            s.push_str(&text[b.1..]);
            push("swap-end-tags", s, Expect::Reject);
        }
    }
    // start tags
    for t in &sp.stags {
        if !t.empty {
            push("delete-gt", splice(text, t.end - 1, 1, ""), Expect::Reject);
        }
        push("delete-start-tag", splice(text, t.start, t.end - t.start, ""), if t.empty {
            if t.start == sp.root_start {
                Expect::RejectAsDocument
            } else {
                Expect::Any
            }
        } else {
            Expect::Reject
        });
        for (i, ((ns, ne), (vs, ve))) in t.attrs.iter().enumerate() {
            push("delete-open-quote", splice(text, vs - 1, 1, ""), Expect::Reject);
            push("delete-close-quote", splice(text, *ve, 1, ""), Expect::Reject);
            push("delete-equals", splice(text, *ne, 1, ""), Expect::Reject);
            let aname = &text[*ns..*ne];
            // the same attribute once more (also a prefix declared twice on one element)
            let dup = format!(" {}=\"dup\"", aname);
            let kind = if aname.starts_with("xmlns") { "redeclare-prefix-on-same-element" } else { "duplicate-attribute" };
            push(kind, splice(text, t.attrs.last().unwrap().1 .1 + 1, 0, &dup), Expect::Reject);
            // raw '<' in an attribute value
            push("lt-in-attribute-value", splice(text, *vs, 0, "<"), Expect::Reject);
            push("bare-amp-in-attribute-value", splice(text, *vs, 0, "& "), Expect::Reject);
            push("bare-amp-after-lone-cr-in-attribute-value", splice(text, *vs, 0, "\r& "), Expect::Reject);
            push("bad-reference-after-lone-cr-in-attribute-value", splice(text, *vs, 0, "\r&#0;"), Expect::Reject);
            for r in ["&#0;", "&#xFFFE;", "&#xD800;", "&#x110000;", "&#1;", "&bogus;", "&#x100000041;", "&#4294967361;", "&#99999999999999999999;"] {
                if !aname.starts_with("xmlns") {
                    push("bad-reference-in-attribute", splice(text, *vs, 0, r), Expect::Reject);
                }
            }
            if !aname.starts_with("xmlns") && aname != "xml:id" {
                for (r, k) in [("&#9;", "tab"), ("&#10;", "lf"), ("&#13;", "cr"), ("&#x20;", "space"), ("&#x1F600;", "astral")] {
                    push(&format!("charref-{}-in-attribute", k), splice(text, *vs, 0, r), Expect::Accept);
                }
                // literal line ends (CR, CRLF, LF, CR CR LF) and a literal TAB in an attribute value
                for (r, k) in [("\r", "cr"), ("\r\n", "crlf"), ("\n", "lf"), ("\r\r\n", "crcrlf"), ("\t", "tab"), ("x\r", "cr-last")] {
                    push(&format!("literal-{}-in-attribute", k), splice(text, *vs, 0, r), Expect::Accept);
                }
            }
            let _ = i;
        }
        // duplicate by expanded name: an attribute p:x plus q:x where q is another prefix for the same URI
        for ((ns, ne), _) in &t.attrs {
            let aname = &text[*ns..*ne];
            if let Some((p, l)) = aname.split_once(':') {
                if p != "xmlns" && p != "xml" {
                    // find the URI of p from a declaration on this very tag (cheap and certain)
                    let decl = format!("xmlns:{}", p);
                    if let Some(((_, _), (vs, ve))) = t.attrs.iter().find(|((a, b), _)| text[*a..*b] == decl) {
                        let uri = &text[*vs..*ve];
                        let ins = format!(" xmlns:zq=\"{}\" zq:{}=\"dup\"", uri, l);
                        push("duplicate-attribute-by-expanded-name", splice(text, t.attrs.last().unwrap().1 .1 + 1, 0, &ins), Expect::Reject);
                    }
                }
            }
        }
        // torn write inside a start tag: an unclosed tag for every entry point
        for cut in [t.name.1, (t.name.1 + t.end) / 2, t.end - 1] {
            if cut > t.start + 1 && cut < t.end && text.is_char_boundary(cut) {
                push("truncate-inside-start-tag", text[..cut].to_string(), Expect::Reject);
            }
        }
        if !t.empty {
            push("empty-cdata-after-start-tag", splice(text, t.end, 0, "<![CDATA[]]>"), Expect::Accept);
        }
        // prefix bound to the empty namespace name
        push("prefix-undeclared-with-empty-uri", splice(text, t.name.1, 0, " xmlns:zp=\"\""), Expect::Reject);
        push("declare-prefix-xmlns", splice(text, t.name.1, 0, " xmlns:xmlns=\"urn:y\""), Expect::Reject);
        push("bind-to-xmlns-namespace", splice(text, t.name.1, 0, " xmlns:zx=\"http://www.w3.org/2000/xmlns/\""), Expect::Reject);
        // the same name spelled with a character reference, and as the default namespace
        push("bind-to-xmlns-namespace", splice(text, t.name.1, 0, " xmlns:zx=\"http://www.w3.org/2000/xmlns&#47;\""), Expect::Reject);
        push("bind-to-xmlns-namespace", splice(text, t.name.1, 0, " xmlns:zx=\"&#x68;ttp://www.w3.org/2000/xmlns/\""), Expect::Reject);
        if !text[t.start..t.end].contains(" xmlns=") {
            push("default-namespace-is-xmlns-namespace", splice(text, t.name.1, 0, " xmlns=\"http://www.w3.org/2000/xmlns/\""), Expect::Any);
        }
        push("prefixed-xmlns-attribute", splice(text, t.name.1, 0, " xmlns:zy=\"urn:zy\" zy:xmlns=\"v\""), Expect::Accept);
        if !text[t.start..t.end].contains("xmlns:xml=") {
            push("xml-prefix-declared-explicitly", splice(text, t.name.1, 0, " xmlns:xml=\"http://www.w3.org/XML/1998/namespace\""), Expect::Accept);
            push("xml-prefix-declared-twice", splice(text, t.name.1, 0, " xmlns:xml=\"http://www.w3.org/XML/1998/namespace\" xmlns:xml=\"http://www.w3.org/XML/1998/namespace\""), Expect::Reject);
            push("xml-prefix-declared-twice", splice(text, t.name.1, 0, " xmlns:xml=\"urn:zz\" xmlns:xml=\"http://www.w3.org/XML/1998/&#110;amespace\""), Expect::Reject);
        }
        // alias duplicates that do not depend on what the element itself declares: both prefixes
        // declared here, one of them the built-in xml prefix, namespace names equal only after
        // attribute-value normalisation
        push("duplicate-attribute-by-expanded-name-xml-alias", splice(text, t.name.1, 0, " xmlns:zx=\"http://www.w3.org/XML/1998/namespace\" zx:lang=\"a\" xml:lang=\"b\""), Expect::Reject);
        for ws in ["\t", "\n", "\r", "\r\n"] {
            push("duplicate-attribute-namespace-names-equal-after-normalisation", splice(text, t.name.1, 0, &format!(" xmlns:zm=\"urn:x y\" xmlns:zn=\"urn:x{}y\" zm:k=\"1\" zn:k=\"2\"", ws)), Expect::Reject);
        }
        // a prefix declared twice with another declaration in between, in an order in which the
        // ids of the prefixes do not ascend (ze was registered before zf by the case before)
        push("register-two-prefixes", splice(text, t.name.1, 0, " xmlns:ze=\"urn:e\" xmlns:zf=\"urn:f\""), Expect::Accept);
        push("prefix-declared-twice-not-adjacent", splice(text, t.name.1, 0, " xmlns:zf=\"urn:1\" xmlns:ze=\"urn:2\" xmlns:zf=\"urn:3\""), Expect::Reject);
        if !text[t.start..t.end].contains(" xmlns=") {
            push("prefix-declared-twice-around-default", splice(text, t.name.1, 0, " xmlns:zf=\"urn:1\" xmlns=\"urn:dd\" xmlns:zf=\"urn:3\""), Expect::Any);
        }
        push("attribute-without-value", splice(text, t.name.1, 0, " novalue"), Expect::Reject);
        push("unquoted-attribute", splice(text, t.name.1, 0, " a1=v"), Expect::Reject);
        push("unbound-prefix-attribute", splice(text, t.name.1, 0, " zu:a=\"1\""), Expect::Reject);
        push("unbound-prefix-element", splice(text, t.start, 0, "<zu:e/>"), if t.start == sp.root_start { Expect::Any } else { Expect::Reject });
        push("duplicate-xml-id", splice(text, t.name.1, 0, " xml:id=\"dupid\""), Expect::Any);
    }
    // duplicate xml:id on two elements
    if sp.stags.len() >= 2 && !text.contains("xml:id") {
        let a = &sp.stags[0];
        let b = &sp.stags[sp.stags.len() - 1];
        let s1 = splice(text, b.name.1, 0, " xml:id=\"dupid\"");
        let s2 = splice(&s1, a.name.1, 0, " xml:id=\"dupid\"");
        push("duplicate-xml-id-two-elements", s2, Expect::Reject);
        // xml:id values are normalised before they are compared
        for (va, vb) in [("dupid", " dupid"), (" dupid", "dupid "), ("dup id", "dup   id"), ("dupid", "&#32;dupid"), (" dupid", " dupid"), ("dupid", "dup&#105;d"), ("&#x64;upid", "dupid"), ("", ""), (" ", ""), ("\t", "  "), ("é1", "é1"), (" é\u{1F600}", "é\u{1F600} ")] {
            let s1 = splice(text, b.name.1, 0, &format!(" xml:id=\"{}\"", vb));
            let s2 = splice(&s1, a.name.1, 0, &format!(" xml:id=\"{}\"", va));
            push("duplicate-xml-id-after-normalisation", s2, Expect::Reject);
        }
        for (va, vb) in [("ida", "idb"), ("id a", "ida"), ("x", " y "), ("", "x"), ("é1", "e1")] {
            let s1 = splice(text, b.name.1, 0, &format!(" xml:id=\"{}\"", vb));
            let s2 = splice(&s1, a.name.1, 0, &format!(" xml:id=\"{}\"", va));
            push("distinct-xml-ids", s2, Expect::Accept);
        }
    }
    // undeclare a used prefix: remove a declaration and see whether the independent resolver objects
    for t in &sp.stags {
        for ((ns, ne), (_, ve)) in &t.attrs {
            if text[*ns..*ne].starts_with("xmlns:") {
                let cand = splice(text, ns - 1, ve + 1 - (ns - 1), "");
                if let Ok(evs) = xmlscan::scan(&cand) {
                    if xmlscan::resolve(&evs).is_err() {
                        push("undeclare-used-prefix", cand, Expect::Reject);
                    }
                }
            }
        }
    }
    // character data
    for (a, b) in &sp.texts {
        for pos in [*a, (*a + *b) / 2, *b] {
            if !text.is_char_boundary(pos) {
                continue;
            }
            // never split an existing reference
            if let Some(amp) = text[*a..pos].rfind('&') {
                if !text[*a + amp..pos].contains(';') {
                    continue;
                }
            }
            // inside a CDATA section these would be literal text; texts here are outside markup,
            // but a CDATA section is skipped by the span scanner, so [a,b) never lies in one
            push("raw-lt-in-content", splice(text, pos, 0, "< "), Expect::Reject);
            push("raw-amp-in-content", splice(text, pos, 0, "& "), Expect::Reject);
            push("unterminated-reference", splice(text, pos, 0, "&amp "), Expect::Reject);
            // an unterminated reference with a long tail of multi-byte characters (error paths that
            // cut or quote the offending text)
            for k in [29usize, 30, 31, 32, 33] {
                let tail = format!("&{}\u{e9}\u{1F600}\u{e9}\u{1F600}\u{e9}\u{1F600}\u{e9}\u{e9} ", "a".repeat(k));
                push("unterminated-reference-long-tail", splice(text, pos, 0, &tail), Expect::Reject);
            }
            for r in [
                "&#0;", "&#xFFFE;", "&#xFFFF;", "&#xD800;", "&#x110000;", "&#8;", "&#;", "&#x;", "&bogus;",
                // values beyond any machine word
                "&#x100000041;", "&#4294967361;", "&#99999999999999999999;", "&#xFFFFFFFFFFFFFFFF41;",
                "&#-65;", "&#+65;", "&#x+41;", "&# 65;", "&#65 ;", "&#X41;",
            ] {
                push("bad-reference-in-content", splice(text, pos, 0, r), Expect::Reject);
            }
            for r in ["&#x0000000041;", "&#0000000065;", "&#x10FFFF;", "&#xFFFD;", "&#xE000;", "&#xD7FF;", "&#32;"] {
                push("charref-boundary-in-content", splice(text, pos, 0, r), Expect::Accept);
            }
            for (r, k) in [("&#9;", "tab"), ("&#10;", "lf"), ("&#13;", "cr"), ("&#x1F600;", "astral"), ("&#xE9;", "latin")] {
                push(&format!("charref-{}-in-content", k), splice(text, pos, 0, r), Expect::Accept);
            }
            for (r, k) in [("\r", "cr"), ("\r\n", "crlf"), ("\r\r\n", "crcrlf"), ("a]]]&gt;b", "brackets")] {
                push(&format!("literal-{}-in-content", k), splice(text, pos, 0, r), Expect::Accept);
            }
            for r in ["\r& ", "\r&nosuch;", "\r&#0;", "\r\r&", "x\r&#xFFFF;"] {
                push("bad-reference-after-lone-cr", splice(text, pos, 0, r), Expect::Reject);
            }
            push("cdata-end-in-content", splice(text, pos, 0, "]]>"), Expect::Reject);
            push("empty-cdata-in-content", splice(text, pos, 0, "<![CDATA[]]>"), Expect::Accept);
            push("cdata-in-content", splice(text, pos, 0, "<![CDATA[<&]] >]]>"), Expect::Accept);
            if !text[pos..].contains("-->") {
                push("unterminated-comment", splice(text, pos, 0, "<!-- c"), Expect::Reject);
            }
            push("double-hyphen-in-comment", splice(text, pos, 0, "<!-- a--b -->"), Expect::Reject);
            if !text[pos..].contains("?>") {
                push("unterminated-pi", splice(text, pos, 0, "<?zz d"), Expect::Reject);
            }
            if !text[pos..].contains("]]>") {
                push("unterminated-cdata", splice(text, pos, 0, "<![CDATA[ c"), Expect::Reject);
            }
            push("xml-pi-target", splice(text, pos, 0, "<?xml d?>"), Expect::Reject);
            for junk in ["<?zz&?>", "<?zz<?>", "<?zz=1?>", "<? zz?>", "<??>"] {
                push("malformed-pi", splice(text, pos, 0, junk), Expect::Reject);
            }
            push("pi-with-question-marks", splice(text, pos, 0, "<?zz ? >?>"), Expect::Accept);
        }
    }
    // document level
    if sp.root_end > 0 {
        push("second-root", splice(text, sp.root_end, 0, "<extra/>"), Expect::RejectAsDocument);
        push("top-level-text-after", splice(text, sp.root_end, 0, "tail"), Expect::RejectAsDocument);
        push("top-level-text-before", splice(text, sp.root_start, 0, "head"), if text.starts_with("<?xml") { Expect::RejectAsDocument } else { Expect::RejectAsDocument });
        push("dtd", splice(text, sp.root_start, 0, "<!DOCTYPE a>"), Expect::Reject);
        push("dtd-internal-subset", splice(text, sp.root_start, 0, "<!DOCTYPE a [<!ENTITY e \"v\">]>"), Expect::Reject);
        if !text.starts_with("<?xml") {
            for ver in ["1.1", "2.0", "1.2", "1.00", "1.10", "1.", "1", "01.0", "1.0 ", "1.0a", "1,0", ""] {
                push(&format!("version-{}", ver), format!("<?xml version=\"{}\"?>{}", ver, text), Expect::Reject);
            }
            push("declaration-not-first", format!(" <?xml version=\"1.0\"?>{}", text), Expect::Reject);
            push("no-root", "<!--only a comment-->".to_string(), Expect::RejectAsDocument);
        }
    }
    push("empty-input", String::new(), Expect::RejectAsDocument);
}

fn storage_cases(bytes: &[u8], rng: &mut Rng, thorough: bool, out: &mut Vec<Case>) {
    let n = bytes.len();
    let mk = |kind: &str, b: Vec<u8>| Case { kind: kind.to_string(), bytes: b, expect: Expect::Any };
    for i in 0..n {
        // torn write / EOF at every byte
        out.push(mk("truncate", bytes[..i].to_vec()));
        // bit flip at every byte (one seeded bit; all eight in the thorough tier)
        let bits: Vec<u8> = if thorough { (0..8).collect() } else { vec![rng.below(8) as u8] };
        for bit in bits {
            let mut b = bytes.to_vec();
            b[i] ^= 1 << bit;
            out.push(mk("bit-flip", b));
        }
    }
    let mut i = 0;
    while i < n {
        for len in [1usize, 4, 16] {
            if i + len <= n {
                let mut b = bytes.to_vec();
                b.drain(i..i + len);
                out.push(mk("lost-block", b));
                let mut b = bytes.to_vec();
                let blk: Vec<u8> = bytes[i..i + len].to_vec();
                for (k, x) in blk.iter().enumerate() {
                    b.insert(i + len + k, *x);
                }
                out.push(mk("duplicated-block", b));
                let mut b = bytes.to_vec();
                for x in b[i..i + len].iter_mut() {
                    *x = 0;
                }
                out.push(mk("zeroed-block", b));
            }
        }
        i += if thorough { 1 } else { 3 };
    }
    // garbage
    for _ in 0..8 {
        let len = rng.range(0, 40);
        let b: Vec<u8> = (0..len).map(|_| rng.below(256) as u8).collect();
        out.push(mk("garbage-bytes", b));
        let s: String = (0..len).map(|_| *rng.pick(&['<', '>', '&', ';', '"', '\'', '/', '?', '!', '-', '[', ']', 'a', ':', ' ', '=', '#', 'x', '\u{e9}', '\u{1F600}', '\u{FFFE}', '\0'])).collect();
        out.push(mk("garbage-markup", s.into_bytes()));
    }
}

fn encoded_cases(text: &str, out: &mut Vec<Case>) {
    let mk = |kind: &str, b: Vec<u8>, e: Expect| Case { kind: kind.to_string(), bytes: b, expect: e };
    let body = text.to_string();
    let plain_ascii = body.is_ascii();
    // BOM + UTF-8
    let mut b = vec![0xEF, 0xBB, 0xBF];
    b.extend_from_slice(body.as_bytes());
    out.push(mk("encoding-utf8-bom", b, Expect::Any));
    // UTF-16 LE / BE with BOM
    let mut le = vec![0xFF, 0xFE];
    let mut be = vec![0xFE, 0xFF];
    for u in body.encode_utf16() {
        le.extend_from_slice(&u.to_le_bytes());
        be.extend_from_slice(&u.to_be_bytes());
    }
    out.push(mk("encoding-utf16le-bom", le.clone(), Expect::Any));
    out.push(mk("encoding-utf16be-bom", be, Expect::Any));
    le.pop();
    out.push(mk("encoding-utf16le-odd-length", le, Expect::Any));
    // UTF-32 LE / BE with BOM, whole and cut inside a code unit
    let mut le32 = vec![0xFF, 0xFE, 0x00, 0x00];
    let mut be32 = vec![0x00, 0x00, 0xFE, 0xFF];
    for c in body.chars() {
        le32.extend_from_slice(&(c as u32).to_le_bytes());
        be32.extend_from_slice(&(c as u32).to_be_bytes());
    }
    out.push(mk("encoding-utf32le-bom", le32.clone(), Expect::Any));
    out.push(mk("encoding-utf32be-bom", be32.clone(), Expect::Any));
    for cut in 1..4 {
        le32.pop();
        be32.pop();
        out.push(mk(&format!("encoding-utf32le-cut-{}", cut), le32.clone(), Expect::Any));
        out.push(mk(&format!("encoding-utf32be-cut-{}", cut), be32.clone(), Expect::Any));
    }
    out.push(mk("encoding-utf32le-bom-one-byte", vec![0xFF, 0xFE, 0x00, 0x00, 0x3C], Expect::Any));
    out.push(mk("encoding-utf32be-bom-one-byte", vec![0x00, 0x00, 0xFE, 0xFF, 0x00], Expect::Any));
    if !body.starts_with("<?xml") {
        for label in ["ISO-8859-1", "US-ASCII", "UTF-8", "utf-8", "windows-1252", "UTF-16", "no-such-encoding", "", "UTF-7", "ebcdic-cp-us", "x\"y"] {
            let s = format!("<?xml version=\"1.0\" encoding=\"{}\"?>{}", label, body);
            out.push(mk("encoding-label", s.into_bytes(), Expect::Any));
        }
        if plain_ascii {
            let s = format!("<?xml version=\"1.0\" encoding=\"ISO-8859-1\"?>{}", body);
            let mut b = s.into_bytes();
            // a Latin-1 byte inside the first text position, if any
            if let Some(p) = b.iter().position(|c| *c == b'>') {
                b.insert(p + 1, 0xE9);
            }
            out.push(mk("encoding-latin1-high-byte", b, Expect::Any));
        }
    }
}

// ------------------------------------------------------------------ the oracle

struct Store {
    x: Xot,
    residents: Vec<(Node, String, String)>, // root, canon, serialisation
    /// parses judged on this store (per run: decisions must not depend on worker-local totals)
    n: u64,
}

fn canon_of(x: &Xot, root: Node) -> Result<String, Violation> {
    let mut budget = NODE_LIMIT;
    // (the parser consolidates character data whatever the store-wide switch says, so adjacent
    // text in a freshly parsed tree is always a defect)
    let t = read_tree(x, root, true, &mut budget)?;
    Ok(canon_r(&t))
}

fn new_store(residents: &[String], cons_off: bool) -> Store {
    let mut x = Xot::new();
    if cons_off {
        x.set_text_consolidation(false);
    }
    let mut res = vec![];
    for t in residents {
        if let Ok(r) = x.parse(t) {
            let c = canon_of(&x, r).unwrap_or_default();
            let s = x.to_string(r).unwrap_or_default();
            res.push((r, c, s));
        }
    }
    Store { x, residents: res, n: 0 }
}

fn check_residents(st: &Store, what: &str) -> Result<(), Violation> {
    for (r, c, s) in &st.residents {
        if st.x.is_removed(*r) {
            return Err(v("failed-parse-damaged-store", format!("{}: a tree of another client was removed", what)));
        }
        let c2 = match real_call(|| canon_of(&st.x, *r)) {
            Ok(Ok(c2)) => c2,
            Ok(Err(e)) => return Err(v("failed-parse-damaged-store", format!("{}: a tree of another client is no longer valid: {}", what, e.msg))),
            Err(_) => return Err(v("failed-parse-damaged-store", format!("{}: reading a tree of another client panics", what))),
        };
        if &c2 != c {
            return Err(v("failed-parse-damaged-store", format!("{}: a tree of another client changed from {} to {}", what, c, c2)));
        }
        match real_call(|| st.x.to_string(*r)) {
            Ok(Ok(s2)) if &s2 == s => {}
            other => return Err(v("failed-parse-damaged-store", format!("{}: a tree of another client serialises differently now: {:?}", what, other.map(|r| r.map_err(|e| format!("{:?}", e))).map_err(|_| "panic")))),
        }
    }
    Ok(())
}

fn run_entry(x: &mut Xot, entry: Entry, bytes: &[u8]) -> Option<std::thread::Result<Result<Node, String>>> {
    let as_str = std::str::from_utf8(bytes).ok();
    let r = match entry {
        Entry::Bytes => real_call(|| x.parse_bytes(bytes).map_err(|e| format!("{:?}", e))),
        Entry::Parse => {
            let s = as_str?;
            real_call(|| x.parse(s).map_err(|e| format!("{:?}", e)))
        }
        Entry::Fragment => {
            let s = as_str?;
            real_call(|| x.parse_fragment(s).map_err(|e| format!("{:?}", e)))
        }
        Entry::ParseSpan => {
            let s = as_str?;
            real_call(|| x.parse_with_span_info(s).map(|(n, _)| n).map_err(|e| format!("{:?}", e)))
        }
        Entry::FragmentSpan => {
            let s = as_str?;
            real_call(|| x.parse_fragment_with_span_info(s).map(|(n, _)| n).map_err(|e| format!("{:?}", e)))
        }
    };
    Some(r)
}

fn is_fragment(e: Entry) -> bool {
    matches!(e, Entry::Fragment | Entry::FragmentSpan)
}

fn show(bytes: &[u8]) -> String {
    let s = String::from_utf8_lossy(bytes);
    let mut s: String = s.chars().take(300).collect();
    if bytes.len() > 300 {
        s.push('…');
    }
    format!("{:?}", s)
}

/// judge one (case, entry) on the shared store
fn judge(st: &mut Store, case: &Case, entry: Entry, stats: &mut Stats) -> Result<(), Violation> {
    let r = match run_entry(&mut st.x, entry, &case.bytes) {
        Some(r) => r,
        None => return Ok(()), // not valid UTF-8: only the byte entry point applies
    };
    stats.steps += 1;
    st.n += 1;
    stats.inc(&format!("fault/{}", case.kind));
    let what = format!("{:?} of {} [{}]", entry, show(&case.bytes), case.kind);
    match r {
        Err(_) => Err(v("panic", format!("{} panicked", what))),
        Ok(Err(_e)) => {
            stats.inc(&format!("op/{}/rejected", case.kind));
            stats.inc("fault/failed_parse");
            if case.expect == Expect::Accept {
                return Err(v("unsound-accept", format!("{} is well-formed but was rejected: {}", what, _e)));
            }
            // the other clients' trees: after every 4th failed parse (and after the campaign)
            if st.n % 4 == 0 {
                stats.inc("probe/c03_residents_checked_after_failed_parse");
                check_residents(st, &what)
            } else {
                Ok(())
            }
        }
        Ok(Ok(root)) => {
            stats.inc(&format!("op/{}/accepted", case.kind));
            let must_reject = match case.expect {
                Expect::Reject => true,
                Expect::RejectAsDocument => !is_fragment(entry),
                _ => false,
            };
            if must_reject {
                return Err(v("ill-formed-accepted", format!("{} was accepted", what)));
            }
            // structurally valid (incl. unique attribute names and prefixes)
            let canon = match real_call(|| canon_of(&st.x, root)) {
                Ok(Ok(c)) => c,
                Ok(Err(e)) => return Err(v("unsound-accept", format!("{} was accepted but the tree is not valid: {}", what, e.msg))),
                Err(_) => return Err(v("unsound-accept", format!("{}: reading the accepted tree panics", what))),
            };
            if !is_fragment(entry) {
                if let Err(e) = st.x.validate_well_formed_document(root) {
                    return Err(v("unsound-accept", format!("{} was accepted but validate_well_formed_document says {:?}", what, e)));
                }
            }
            // its serialisation is accepted again and reparses equal
            let text = match real_call(|| st.x.to_string(root)) {
                Ok(Ok(t)) => t,
                Ok(Err(e)) => return Err(v("unsound-accept", format!("{} was accepted but does not serialise: {:?}", what, e))),
                Err(_) => return Err(v("unsound-accept", format!("{} was accepted but serialising it panics", what))),
            };
            let again = real_call(|| if is_fragment(entry) { st.x.parse_fragment(&text) } else { st.x.parse(&text) });
            match again {
                Ok(Ok(r2)) => {
                    let c2 = canon_of(&st.x, r2).map_err(|e| v("unsound-accept", e.msg))?;
                    // (an explicit declaration of the built-in pair xmlns:xml=... is legal, is kept as a
                    // namespace node, and is never written: it is not there after the round trip)
                    let builtin = "#xml=\"http://www.w3.org/XML/1998/namespace\",";
                    if c2.replace(builtin, "") != canon.replace(builtin, "") {
                        return Err(v(
                            "unsound-accept",
                            format!("{} was accepted as {} but its serialisation {:?} reparses as {}", what, canon, text, c2),
                        ));
                    }
                    if !st.x.deep_equal(root, r2) {
                        return Err(v("unsound-accept", format!("{}: reparse of {:?} is not deep_equal", what, text)));
                    }
                    let _ = st.x.remove(r2);
                }
                Ok(Err(e)) => {
                    return Err(v("unsound-accept", format!("{} was accepted but its serialisation {:?} is rejected: {:?}", what, text, e)))
                }
                Err(_) => return Err(v("panic", format!("{}: reparsing the serialisation {:?} panicked", what, text))),
            }
            if st.n % 4 == 0 {
                check_residents(st, &what)?;
            }
            // keep the store small: the new tree is dropped again most of the time
            if st.n % 7 != 0 {
                let _ = st.x.remove(root);
            }
            Ok(())
        }
    }
}

fn run_replay(r: &C03Replay, stats: &mut Stats) -> Option<Violation> {
    hashseam::reseed(r.hash_seed);
    let mut st = new_store(&r.residents, r.cons_off);
    let mut scratch = Stats::default();
    for (c, e) in &r.history {
        let _ = judge(&mut st, c, *e, &mut scratch);
    }
    judge(&mut st, &r.case, r.entry, stats).err()
}

pub struct C03Engine;

fn gen_source(rng: &mut Rng) -> String {
    // the campaign is quadratic in the document length: keep documents at rest small
    let mut best = String::new();
    for _ in 0..6 {
        let cfg = GenCfg::swarm(rng);
        let d = absdoc::gen_doc(rng, &cfg);
        let mut coin = rng.fork();
        let mut cdata = move || coin.pct(15);
        let s = absdoc::render_doc(&d, false, &mut cdata);
        if s.len() <= 400 {
            return s;
        }
        if best.is_empty() || s.len() < best.len() {
            best = s;
        }
    }
    if best.len() > 900 {
        return "<a xmlns:p=\"urn:x\" p:b=\"v\">t<p:c/><!--c--></a>".to_string();
    }
    best
}

impl PropEngine for C03Engine {
    fn id(&self) -> &'static str {
        "C03"
    }
    fn level(&self) -> &'static str {
        "fault_enumeration"
    }
    fn default_runs(&self, thorough: bool) -> u64 {
        if thorough {
            20_000
        } else {
            2500
        }
    }
    fn run_one(&self, run_index: u64, run_seed: u64, _known: &KnownFile, stats: &mut Stats) -> Option<EngineFailure> {
        let thorough = std::env::var("VERIF_TIER").map(|t| t == "thorough").unwrap_or(false);
        let mut rng = Rng::new(run_seed);
        let hash_seed = rng.next();
        hashseam::reseed(hash_seed);
        // the other clients' trees
        let residents: Vec<String> = (0..rng.range(1, 2)).map(|_| gen_source(&mut rng)).collect();
        // the document at rest: a rendering, or a serialisation written by the store itself
        let mut source = gen_source(&mut rng);
        if rng.pct(40) {
            let mut x = Xot::new();
            if let Ok(r) = x.parse(&source) {
                if let Ok(s) = x.to_string(r) {
                    source = s;
                    stats.inc("swarm/source_written_by_the_store");
                }
            }
        }
        let mut cases: Vec<Case> = vec![Case { kind: "undamaged".into(), bytes: source.clone().into_bytes(), expect: Expect::Accept }];
        structural_cases(&source, &mut cases);
        storage_cases(source.as_bytes(), &mut rng, thorough, &mut cases);
        encoded_cases(&source, &mut cases);
        stats.runs += 1;
        let cons_off = rng.pct(30);
        if cons_off {
            stats.inc("fault/consolidation_switched_off_by_another_client");
        }
        let mut st = new_store(&residents, cons_off);
        let mut digest = Fnv::new();
        let mut done: Vec<(usize, Entry)> = vec![];
        for (ci, case) in cases.iter().enumerate() {
            for entry in ENTRIES {
                if let Err(viol) = judge(&mut st, case, entry, stats) {
                    let mut rep = C03Replay { hash_seed, cons_off, residents: residents.clone(), case: case.clone(), entry, history: vec![] };
                    // does it fail on its own? otherwise everything the store has seen before comes along
                    // (the minimiser thins it out)
                    let mut scratch = Stats::default();
                    if !matches!(run_replay(&rep, &mut scratch), Some(ref v2) if v2.class == viol.class) {
                        rep.history = done.iter().map(|(i, e)| (cases[*i].clone(), *e)).collect();
                    }
                    return Some(EngineFailure { violation: viol, replay: serde_json::to_value(&rep).unwrap() });
                }
                done.push((ci, entry));
            }
            let mut h = Fnv::new();
            h.bytes(&case.bytes);
            stats.set_insert("states", h.0);
            if case.expect != Expect::Any || case.bytes.len() > 8 {
                stats.set_insert("nontrivial_traces", h.0);
            }
            digest.u64(h.0);
        }
        // once the faults have stopped the store is still usable
        if let Err(viol) = check_residents(&st, "after the fault campaign") {
            let rep = C03Replay { hash_seed, cons_off, residents: residents.clone(), case: cases[0].clone(), entry: Entry::Parse, history: vec![] };
            return Some(EngineFailure { violation: viol, replay: serde_json::to_value(&rep).unwrap() });
        }
        match real_call(|| st.x.parse(&source)) {
            Ok(Ok(_)) => {}
            other => {
                let rep = C03Replay { hash_seed, cons_off, residents: residents.clone(), case: cases[0].clone(), entry: Entry::Parse, history: vec![] };
                return Some(EngineFailure {
                    violation: v("failed-parse-damaged-store", format!("after the fault campaign the undamaged document no longer parses: {:?}", other.map(|r| r.map(|_| ()).map_err(|e| format!("{:?}", e))).map_err(|_| "panic"))),
                    replay: serde_json::to_value(&rep).unwrap(),
                });
            }
        }
        stats.digest ^= crate::rng::mix(run_index, digest.0, 3);
        if run_index < 2 {
            let sample: Vec<String> = cases.iter().step_by((cases.len() / 12).max(1)).take(12).map(|c| format!("{}: {}", c.kind, show(&c.bytes))).collect();
            stats.samples.insert(run_index, serde_json::json!({"source": source, "cases": cases.len(), "some_cases": sample}));
        }
        None
    }
    fn minimise(&self, f: EngineFailure, _known: &KnownFile) -> EngineFailure {
        let mut r: C03Replay = serde_json::from_value(f.replay.clone()).unwrap();
        let class = f.violation.class;
        let mut viol = f.violation.clone();
        let mut st = Stats::default();
        // thin out the history: halves, quarters, ... single entries
        if !r.history.is_empty() {
            let mut chunk = r.history.len();
            while chunk >= 1 {
                let mut i = 0;
                while i < r.history.len() {
                    let mut c = r.clone();
                    let end = (i + chunk).min(c.history.len());
                    c.history.drain(i..end);
                    match run_replay(&c, &mut st) {
                        Some(v2) if v2.class == class => {
                            r = c;
                            viol = v2;
                        }
                        _ => i += chunk,
                    }
                }
                chunk /= 2;
            }
        }
        // fewer residents
        while !r.residents.is_empty() {
            let mut c = r.clone();
            c.residents.pop();
            match run_replay(&c, &mut st) {
                Some(v2) if v2.class == class => {
                    r = c;
                    viol = v2;
                }
                _ => break,
            }
        }
        // for classes that are about the input itself, shrink the input by removing chunks
        if matches!(class, "panic" | "unsound-accept") {
            let mut chunk = r.case.bytes.len() / 2;
            while chunk >= 1 {
                let mut i = 0;
                while i + chunk <= r.case.bytes.len() {
                    let mut c = r.clone();
                    c.case.bytes.drain(i..i + chunk);
                    c.case.expect = Expect::Any;
                    match run_replay(&c, &mut st) {
                        Some(v2) if v2.class == class => {
                            r = c;
                            viol = v2;
                        }
                        _ => i += chunk,
                    }
                }
                chunk /= 2;
            }
        }
        EngineFailure { violation: viol, replay: serde_json::to_value(&r).unwrap() }
    }
    fn replay(&self, replay: &Value, _known: &KnownFile, stats: &mut Stats) -> Option<Violation> {
        let r: C03Replay = match serde_json::from_value(replay.clone()) {
            Ok(r) => r,
            Err(e) => {
                eprintln!("harness error: bad C03 replay: {}", e);
                std::process::exit(2);
            }
        };
        run_replay(&r, stats)
    }
    fn rule(&self) -> String {
        "Per run: a seeded store in which 1-2 other clients hold parsed documents, and one document at rest (a generator rendering with namespaces, attributes, CDATA, comments, PIs, or a serialisation written by the store). The document is damaged by every fault of the catalogue at every applicable position: storage faults (truncation at every byte, a bit flip at every byte, lost / duplicated / zero-filled blocks of 1, 4, 16 bytes, UTF-8/UTF-16 BOM forms, odd-length UTF-16, encoding labels incl. unknown ones, garbage bytes and garbage markup) whose outcome is unknown, and edits that are ill-formed by construction (delete / rename / swap end tags, stray end tag, delete '>' / quote / '=', duplicate attribute, prefix declared twice, duplicate by expanded name, xmlns:p=\"\", unbound prefixes, undeclaring a used prefix, raw '<' and '&', bad / non-Char / unterminated references, ']]>' in content, unterminated comment / PI / CDATA, '--' in a comment, PI target xml, second root, top-level text, DTD, version 1.1, misplaced declaration, no root, duplicate xml:id) plus character references that must stay accepted (TAB, LF, CR, astral). Every case is parsed with parse, parse_fragment, parse_bytes, parse_with_span_info and parse_fragment_with_span_info into the shared store. Judged: returns without unwinding; ill-formed by construction => Err; Ok => the new tree passes the structural invariants (unique attribute names and prefixes), validate_well_formed_document for documents, and its serialisation is accepted again and reparses to the same canonical tree and deep_equal; after every parse, failing or not, the other clients' trees read back and serialise as before; after the campaign the undamaged document still parses. Distinct = distinct damaged byte string; non-trivial = a case with a known expected outcome or longer than 8 bytes.".to_string()
    }
    fn assumptions(&self) -> Vec<String> {
        vec![
            "the catalogue's claim 'ill-formed by construction' rests on the generator's output format (double-quoted attributes, no DTD) and on positions found by a span scanner over that format".into(),
            "bit flips: one seeded bit per byte in the quick tier, all eight in the thorough tier".into(),
            "hangs are caught by the watchdog of the batch driver".into(),
        ]
    }
}
