//! C11 — attribute and namespace views behave as insertion-ordered maps.
//! Runs on the forest simulation with a map-heavy workload; after every step
//! both views of every element are read through all accessors and compared
//! with each other and with the ordered-map part of the reference model.

use super::forest_props::ForestEngine;
use crate::engine::StepInfo;
use crate::forest::{ForestCfg, TraceOp};
use crate::gen::Profile;
use crate::model::{Kind, Lid, Nm, K};
use crate::ops::Op;
use crate::rng::Rng;
use crate::stats::Stats;
use crate::world::{nm_of, Violation, World};
use crate::xmlscan;
use xot::output::Output;
use xot::Node;

fn v(class: &'static str, msg: String) -> Violation {
    Violation::new("C11", class, msg)
}

fn shape(p: &mut Profile, r: &mut Rng) {
    p.w_map += 25;
    p.w_special_node += 12;
    p.w_move = p.w_move.min(8);
    p.w_clone = p.w_clone.min(2);
    p.fault_pct = p.fault_pct.min(25);
    p.max_nodes = p.max_nodes.max(25);
    if r.pct(50) {
        p.w_parse += 2;
    }
}

/// which violations of the shared engine are violations of C11 as well
fn claim(viol: &Violation, op: &Op, pre: &World, _info: &StepInfo) -> Option<Violation> {
    // an element that comes into being with a key twice, or with its entries out of place (parser,
    // `fixed` helper), does not have map-like views either
    if matches!(op, Op::Xotify { .. } | Op::Parse { .. }) {
        let about_maps = viol.property == "C04"
            && (matches!(viol.class, "category-order" | "duplicate-key") || (viol.class == "accessor-disagrees" && (viol.msg.contains("get_attribute") || viol.msg.contains("get_namespace") || viol.msg.contains("attribute_nodes"))));
        return if about_maps { Some(v("model-mismatch-map", format!("after {}: {}", op.name(), viol.msg))) } else { None };
    }
    // a map operation on an element that unwinds is not map behaviour either
    let unwinds = viol.property == "C06" && viol.class == "panic";
    if viol.property != "C05" && !unwinds && !(viol.property == "C04" && matches!(viol.class, "category-order" | "duplicate-key")) {
        return None;
    }
    let m = &pre.model;
    let special = |l: &Lid| m.exists_live(*l) && matches!(m.k(*l), K::Attr | K::Ns);
    let is_map_op = op.is_element_only() && !matches!(op, Op::SetElementName { .. })
        || matches!(op, Op::AppendAttrNode { .. } | Op::AppendNsNode { .. } | Op::AppendNamespace { .. })
        || (matches!(op, Op::AnyAppend { .. } | Op::Detach { .. } | Op::Remove { .. }) && op.node_args().iter().any(special));
    if !is_map_op {
        return None;
    }
    Some(v("model-mismatch-map", format!("after {}: {}", op.name(), viol.msg)))
}

struct ModelMap {
    attrs: Vec<(Nm, String, Lid)>,
    ns: Vec<(String, String, Lid)>,
}

fn model_map(w: &World, e: Lid) -> ModelMap {
    let n = w.model.n(e);
    let mut mm = ModelMap { attrs: vec![], ns: vec![] };
    for a in &n.attrs {
        if let Kind::Attr(nm, val) = &w.model.n(*a).kind {
            mm.attrs.push((nm.clone(), val.clone(), *a));
        }
    }
    for a in &n.ns {
        if let Kind::Ns(p, u) = &w.model.n(*a).kind {
            mm.ns.push((p.clone(), u.clone(), *a));
        }
    }
    mm
}

fn check_attr_views(w: &mut World, e: Lid, h: Node, mm: &ModelMap, stats: &mut Stats) -> Result<(), Violation> {
    let exp_pairs: Vec<(Nm, String)> = mm.attrs.iter().map(|(n, val, _)| (n.clone(), val.clone())).collect();
    let exp_nodes: Vec<Node> = mm.attrs.iter().map(|(_, _, l)| w.h(*l)).collect();
    // ---- read-only view
    let (ro_len, ro_empty, ro_iter, ro_keys, ro_vals, ro_nodes, ro_vec, ro_hm_len) = {
        let x = &w.xot;
        let a = x.attributes(h);
        (
            a.len(),
            a.is_empty(),
            a.iter().map(|(k, val)| (nm_of(x, k), val.clone())).collect::<Vec<_>>(),
            a.keys().map(|k| nm_of(x, k)).collect::<Vec<_>>(),
            a.values().cloned().collect::<Vec<_>>(),
            a.nodes().collect::<Vec<_>>(),
            a.to_vec().into_iter().map(|(k, val)| (nm_of(x, k), val)).collect::<Vec<_>>(),
            {
                let hm = a.to_hashmap();
                // the hash map must hold exactly the entries of iter()
                if a.iter().any(|(k, val)| hm.get(&k) != Some(val)) {
                    usize::MAX
                } else {
                    hm.len()
                }
            },
        )
    };
    // ---- mutable view (its read API is duplicated code)
    let (mu_len, mu_empty, mu_iter, mu_keys, mu_vals, mu_nodes, mu_vec, mu_hm_len) = {
        let ids: Vec<(xot::NameId, String)>;
        let keys: Vec<xot::NameId>;
        let vals: Vec<String>;
        let nodes: Vec<Node>;
        let vecd: Vec<(xot::NameId, String)>;
        let (len, empty, hm);
        {
            let a = w.xot.attributes_mut(h);
            len = a.len();
            empty = a.is_empty();
            nodes = a.nodes().collect();
            vecd = a.to_vec();
            hm = a.to_hashmap().len();
            ids = a.iter().map(|(k, val)| (k, val.clone())).collect();
        }
        {
            let a = w.xot.attributes_mut(h);
            keys = a.keys().collect();
        }
        {
            let a = w.xot.attributes_mut(h);
            vals = a.values().cloned().collect();
        }
        let x = &w.xot;
        (
            len,
            empty,
            ids.into_iter().map(|(k, val)| (nm_of(x, k), val)).collect::<Vec<_>>(),
            keys.into_iter().map(|k| nm_of(x, k)).collect::<Vec<_>>(),
            vals,
            nodes,
            vecd.into_iter().map(|(k, val)| (nm_of(x, k), val)).collect::<Vec<_>>(),
            hm,
        )
    };
    stats.inc("probe/c11_elements_compared");
    if !exp_pairs.is_empty() {
        stats.inc("probe/c11_nonempty_attribute_maps_compared");
    }
    let n = exp_pairs.len();
    let exp_keys: Vec<Nm> = exp_pairs.iter().map(|p| p.0.clone()).collect();
    let exp_vals: Vec<String> = exp_pairs.iter().map(|p| p.1.clone()).collect();
    macro_rules! chk {
        ($cond:expr, $class:expr, $what:expr) => {
            if !$cond {
                return Err(v($class, format!("element {:?}: {} (model {:?})", e, $what, exp_pairs)));
            }
        };
    }
    chk!(ro_len == n, "model-mismatch-map", format!("attributes().len() = {}", ro_len));
    chk!(mu_len == n, "model-mismatch-map", format!("attributes_mut().len() = {}", mu_len));
    chk!(ro_empty == (n == 0), "model-mismatch-map", format!("attributes().is_empty() = {} with {} entries", ro_empty, n));
    chk!(mu_empty == (n == 0), "view-disagreement", format!("attributes_mut().is_empty() = {} with {} entries", mu_empty, n));
    chk!(ro_iter == exp_pairs, "model-mismatch-map", format!("attributes().iter() = {:?}", ro_iter));
    chk!(mu_iter == exp_pairs, "view-disagreement", format!("attributes_mut().iter() = {:?}", mu_iter));
    chk!(ro_keys == exp_keys, "model-mismatch-map", format!("attributes().keys() = {:?}", ro_keys));
    chk!(mu_keys == exp_keys, "view-disagreement", format!("attributes_mut().keys() = {:?}", mu_keys));
    chk!(ro_vals == exp_vals, "model-mismatch-map", format!("attributes().values() = {:?}", ro_vals));
    chk!(mu_vals == exp_vals, "view-disagreement", format!("attributes_mut().values() = {:?}", mu_vals));
    chk!(ro_vec == exp_pairs, "model-mismatch-map", format!("attributes().to_vec() = {:?}", ro_vec));
    chk!(mu_vec == exp_pairs, "view-disagreement", format!("attributes_mut().to_vec() = {:?}", mu_vec));
    chk!(ro_hm_len == n && mu_hm_len == n, "model-mismatch-map", format!("to_hashmap() sizes {} / {}", ro_hm_len, mu_hm_len));
    chk!(ro_nodes == exp_nodes, "node-changed", "attributes().nodes() are not the model's nodes in the model's order".to_string());
    chk!(mu_nodes == exp_nodes, "node-changed", "attributes_mut().nodes() are not the model's nodes in the model's order".to_string());
    // keyed access: every present key, and names registered in the store that are absent here
    let mut probe: Vec<(Nm, Option<usize>)> = exp_keys.iter().enumerate().map(|(i, k)| (k.clone(), Some(i))).collect();
    for cand in [Nm::new("a", ""), Nm::new("b", "urn:x"), Nm::new("space", "http://www.w3.org/XML/1998/namespace")] {
        if !exp_keys.contains(&cand) {
            probe.push((cand, None));
        }
    }
    for (k, pos) in probe {
        let ns = match w.xot.namespace(&k.uri) {
            Some(ns) => ns,
            None => continue,
        };
        let id = match w.xot.name_ns(&k.local, ns) {
            Some(id) => id,
            None => continue,
        };
        let exp_val = pos.map(|i| exp_vals[i].clone());
        let exp_node = pos.map(|i| exp_nodes[i]);
        let (c1, g1, n1, ga) = {
            let a = w.xot.attributes(h);
            (a.contains_key(id), a.get(id).cloned(), a.get_node(id), w.xot.get_attribute(h, id).map(|s| s.to_string()))
        };
        let (c2, g2, n2) = {
            let a = w.xot.attributes_mut(h);
            (a.contains_key(id), a.get(id).cloned(), a.get_node(id))
        };
        chk!(c1 == pos.is_some() && g1 == exp_val && n1 == exp_node && ga == exp_val, "model-mismatch-map", format!("read-only keyed access for {:?}: contains {} get {:?}", k, c1, g1));
        chk!(c2 == pos.is_some() && g2 == exp_val && n2 == exp_node, "view-disagreement", format!("mutable-view keyed access for {:?}: contains {} get {:?}", k, c2, g2));
    }
    Ok(())
}

fn check_ns_views(w: &mut World, e: Lid, h: Node, mm: &ModelMap) -> Result<(), Violation> {
    let exp_pairs: Vec<(String, String)> = mm.ns.iter().map(|(p, u, _)| (p.clone(), u.clone())).collect();
    let exp_nodes: Vec<Node> = mm.ns.iter().map(|(_, _, l)| w.h(*l)).collect();
    let conv = |x: &xot::Xot, p: xot::PrefixId, u: xot::NamespaceId| (x.prefix_str(p).to_string(), x.namespace_str(u).to_string());
    let (ro_len, ro_empty, ro_iter, ro_keys, ro_vals, ro_nodes, ro_vec, ro_hm) = {
        let x = &w.xot;
        let a = x.namespaces(h);
        (
            a.len(),
            a.is_empty(),
            a.iter().map(|(k, val)| conv(x, k, *val)).collect::<Vec<_>>(),
            a.keys().map(|k| x.prefix_str(k).to_string()).collect::<Vec<_>>(),
            a.values().map(|u| x.namespace_str(*u).to_string()).collect::<Vec<_>>(),
            a.nodes().collect::<Vec<_>>(),
            a.to_vec().into_iter().map(|(k, val)| conv(x, k, val)).collect::<Vec<_>>(),
            a.to_hashmap().len(),
        )
    };
    let (mu_len, mu_empty, mu_iter, mu_keys, mu_vals, mu_nodes, mu_vec, mu_hm) = {
        let (len, empty, nodes, vecd, hm, it): (usize, bool, Vec<Node>, Vec<_>, usize, Vec<_>);
        let keys: Vec<xot::PrefixId>;
        let vals: Vec<xot::NamespaceId>;
        {
            let a = w.xot.namespaces_mut(h);
            len = a.len();
            empty = a.is_empty();
            nodes = a.nodes().collect();
            vecd = a.to_vec();
            hm = a.to_hashmap().len();
            it = a.iter().map(|(k, val)| (k, *val)).collect::<Vec<_>>();
        }
        {
            let a = w.xot.namespaces_mut(h);
            keys = a.keys().collect();
        }
        {
            let a = w.xot.namespaces_mut(h);
            vals = a.values().copied().collect();
        }
        let x = &w.xot;
        (
            len,
            empty,
            it.into_iter().map(|(k, val)| conv(x, k, val)).collect::<Vec<_>>(),
            keys.into_iter().map(|k| x.prefix_str(k).to_string()).collect::<Vec<_>>(),
            vals.into_iter().map(|u| x.namespace_str(u).to_string()).collect::<Vec<_>>(),
            nodes,
            vecd.into_iter().map(|(k, val)| conv(x, k, val)).collect::<Vec<_>>(),
            hm,
        )
    };
    let n = exp_pairs.len();
    let exp_keys: Vec<String> = exp_pairs.iter().map(|p| p.0.clone()).collect();
    let exp_vals: Vec<String> = exp_pairs.iter().map(|p| p.1.clone()).collect();
    macro_rules! chk {
        ($cond:expr, $class:expr, $what:expr) => {
            if !$cond {
                return Err(v($class, format!("element {:?}: {} (model {:?})", e, $what, exp_pairs)));
            }
        };
    }
    chk!(ro_len == n && mu_len == n, "model-mismatch-map", format!("namespaces len {} / {}", ro_len, mu_len));
    chk!(ro_empty == (n == 0), "model-mismatch-map", format!("namespaces().is_empty() = {} with {} entries", ro_empty, n));
    chk!(mu_empty == (n == 0), "view-disagreement", format!("namespaces_mut().is_empty() = {} with {} entries", mu_empty, n));
    chk!(ro_iter == exp_pairs && ro_vec == exp_pairs, "model-mismatch-map", format!("namespaces().iter() = {:?}", ro_iter));
    chk!(mu_iter == exp_pairs && mu_vec == exp_pairs, "view-disagreement", format!("namespaces_mut().iter() = {:?}", mu_iter));
    chk!(ro_keys == exp_keys && ro_vals == exp_vals, "model-mismatch-map", format!("namespaces().keys()/values() = {:?}/{:?}", ro_keys, ro_vals));
    chk!(mu_keys == exp_keys && mu_vals == exp_vals, "view-disagreement", format!("namespaces_mut().keys()/values() = {:?}/{:?}", mu_keys, mu_vals));
    chk!(ro_hm == n && mu_hm == n, "model-mismatch-map", format!("to_hashmap sizes {} / {}", ro_hm, mu_hm));
    chk!(ro_nodes == exp_nodes && mu_nodes == exp_nodes, "node-changed", "namespaces nodes() are not the model's nodes in the model's order".to_string());
    let mut probe: Vec<(String, Option<usize>)> = exp_keys.iter().enumerate().map(|(i, k)| (k.clone(), Some(i))).collect();
    for cand in ["", "p", "xml"] {
        if !exp_keys.iter().any(|k| k == cand) {
            probe.push((cand.to_string(), None));
        }
    }
    for (k, pos) in probe {
        let id = match w.xot.prefix(&k) {
            Some(id) => id,
            None => continue,
        };
        let exp_val = pos.map(|i| exp_vals[i].clone());
        let exp_node = pos.map(|i| exp_nodes[i]);
        let (c1, g1, n1, g3) = {
            let x = &w.xot;
            let a = x.namespaces(h);
            (
                a.contains_key(id),
                a.get(id).map(|u| x.namespace_str(*u).to_string()),
                a.get_node(id),
                x.get_namespace(h, id).map(|u| x.namespace_str(u).to_string()),
            )
        };
        let (c2, g2i, n2) = {
            let a = w.xot.namespaces_mut(h);
            (a.contains_key(id), a.get(id).copied(), a.get_node(id))
        };
        let g2 = g2i.map(|u| w.xot.namespace_str(u).to_string());
        chk!(c1 == pos.is_some() && g1 == exp_val && n1 == exp_node && g3 == exp_val, "model-mismatch-map", format!("read-only keyed access for prefix {:?}", k));
        chk!(c2 == pos.is_some() && g2 == exp_val && n2 == exp_node, "view-disagreement", format!("mutable-view keyed access for prefix {:?}", k));
    }
    Ok(())
}

/// order of Prefix / Attribute events of outputs() per element, and of the
/// declarations / attributes in to_string, against the model's order
fn check_serialisation_order(w: &World, root: Lid, stats: &mut Stats) -> Result<(), Violation> {
    let rh = w.h(root);
    if !matches!(w.model.k(root), K::Doc | K::Elem) {
        return Ok(());
    }
    // --- outputs()
    let mut per_elem: Vec<(Node, Vec<(String, String)>, Vec<(Nm, String)>)> = vec![];
    for (node, out) in w.xot.outputs(rh) {
        match out {
            Output::StartTagOpen(_) => per_elem.push((node, vec![], vec![])),
            Output::Prefix(p, u) => {
                if let Some(last) = per_elem.last_mut() {
                    last.1.push((w.xot.prefix_str(p).to_string(), w.xot.namespace_str(u).to_string()));
                }
            }
            Output::Attribute(n, val) => {
                if let Some(last) = per_elem.last_mut() {
                    last.2.push((nm_of(&w.xot, n), val.to_string()));
                }
            }
            _ => {}
        }
    }
    let elems: Vec<Lid> = w.model.subtree(root).into_iter().filter(|l| w.model.k(*l) == K::Elem).collect();
    if per_elem.len() != elems.len() {
        return Err(v("serialisation-order", format!("outputs() of {:?} has {} start tags, model has {} elements", root, per_elem.len(), elems.len())));
    }
    for (i, e) in elems.iter().enumerate() {
        let mm = model_map(w, *e);
        let exp_ns: Vec<(String, String)> = mm.ns.iter().map(|(p, u, _)| (p.clone(), u.clone())).collect();
        let exp_at: Vec<(Nm, String)> = mm.attrs.iter().map(|(n, val, _)| (n.clone(), val.clone())).collect();
        let (node, got_ns, got_at) = &per_elem[i];
        if *node != w.h(*e) {
            return Err(v("serialisation-order", format!("outputs(): start tag {} is tagged with another node than {:?}", i, e)));
        }
        // the top element of an unattached tree additionally gets the inherited (here: only the
        // built-in xml) prefixes first
        let got_own: Vec<(String, String)> = if *e == root {
            got_ns.iter().filter(|(p, u)| !(p == "xml" && u == "http://www.w3.org/XML/1998/namespace" && !exp_ns.iter().any(|(ep, _)| ep == "xml"))).cloned().collect()
        } else {
            got_ns.clone()
        };
        if got_own != exp_ns {
            return Err(v("serialisation-order", format!("outputs(): declarations of {:?} are {:?}, model order {:?}", e, got_own, exp_ns)));
        }
        if *got_at != exp_at {
            return Err(v("serialisation-order", format!("outputs(): attributes of {:?} are {:?}, model order {:?}", e, got_at, exp_at)));
        }
    }
    // --- to_string (only when it serialises)
    let text = match crate::driver::real_call(|| w.xot.to_string(rh)) {
        Ok(Ok(t)) => t,
        _ => return Ok(()),
    };
    let evs = match xmlscan::scan(&text) {
        Ok(e) => e,
        Err(_) => return Ok(()), // well-formedness of the text is not this property's subject
    };
    let starts: Vec<&Vec<(String, String)>> = evs
        .iter()
        .filter_map(|e| if let xmlscan::Ev::Start { attrs, .. } = e { Some(attrs) } else { None })
        .collect();
    if starts.len() != elems.len() {
        return Ok(());
    }
    stats.inc("probe/c11_to_string_orders_compared");
    for (i, e) in elems.iter().enumerate() {
        let mm = model_map(w, *e);
        let got_decl: Vec<(String, String)> = starts[i]
            .iter()
            .filter_map(|(n, val)| {
                if n == "xmlns" {
                    Some(("".to_string(), val.clone()))
                } else {
                    n.strip_prefix("xmlns:").map(|p| (p.to_string(), val.clone()))
                }
            })
            // (the built-in declaration of the xml prefix is written only where an ancestor has bound
            // the prefix to something else: whether it appears is not a matter of order)
            .filter(|(p, u)| !(p == "xml" && u == "http://www.w3.org/XML/1998/namespace"))
            .collect();
        let got_attr: Vec<(String, String)> = starts[i]
            .iter()
            .filter(|(n, _)| n != "xmlns" && !n.starts_with("xmlns:"))
            .map(|(n, val)| (n.rsplit(':').next().unwrap().to_string(), val.clone()))
            .collect();
        let exp_decl: Vec<(String, String)> = mm
            .ns
            .iter()
            .filter(|(p, u, _)| !(p == "xml" && u == "http://www.w3.org/XML/1998/namespace"))
            .map(|(p, u, _)| (p.clone(), u.clone()))
            .collect();
        let exp_attr: Vec<(String, String)> = mm.attrs.iter().map(|(n, val, _)| (n.local.clone(), val.clone())).collect();
        // values containing characters the serialiser normalises are not compared here (C01's subject)
        let plain = |s: &str| !s.contains(['\n', '\r', '\t']);
        if exp_attr.iter().all(|(_, val)| plain(val)) && got_attr != exp_attr {
            return Err(v("serialisation-order", format!("to_string: attributes of {:?} written as {:?}, model order {:?}", e, got_attr, exp_attr)));
        }
        if *e != root && got_decl != exp_decl {
            return Err(v("serialisation-order", format!("to_string: declarations of {:?} written as {:?}, model order {:?}", e, got_decl, exp_decl)));
        }
    }
    Ok(())
}

fn extra(_pre: &World, post: &mut World, _t: &TraceOp, _info: &StepInfo, stats: &mut Stats) -> Vec<Violation> {
    let elems: Vec<Lid> = post.model.nodes.iter().filter(|(_, n)| n.live && matches!(n.kind, Kind::Elem(_))).map(|(l, _)| *l).collect();
    for e in elems {
        let h = post.h(e);
        let mm = model_map(post, e);
        if let Err(x) = check_attr_views(post, e, h, &mm, stats) {
            return vec![x];
        }
        if let Err(x) = check_ns_views(post, e, h, &mm) {
            return vec![x];
        }
    }
    let roots: Vec<Lid> = post.model.roots.iter().copied().collect();
    for r in roots {
        if !post.handles.contains_key(&r) {
            continue;
        }
        if let Err(x) = check_serialisation_order(post, r, stats) {
            return vec![x];
        }
    }
    vec![]
}

pub fn engine() -> ForestEngine {
    ForestEngine {
        cfg: ForestCfg { property: "C11", extra: Some(extra), shape, enumerate_every: 0, claim: Some(claim), fork_check: false },
        level: "exploration",
        quick_runs: 20_000,
        thorough_runs: 600_000,
        rule: "Seeded histories on a shared Xot with a map-heavy mix: map-style updates (insert, remove, get_mut, clear, the entry API, set_/remove_attribute, set_/remove_namespace) interleaved with node-style updates (append_attribute_node, append_namespace_node, any_append, detach/remove of attribute and namespace nodes, nodes taken from other elements, existing keys). After every step, for every element, len/is_empty/contains_key/get/get_node/iter/keys/values/nodes/to_vec/to_hashmap of attributes(), attributes_mut(), namespaces(), namespaces_mut() are compared with each other and with the model's ordered map (same nodes at the same positions), and the order of Prefix/Attribute events of outputs() and of declarations/attributes in to_string is compared with the model's order. A trace is non-trivial/distinct as for C04.",
    }
}
