//! C08 — name, namespace and prefix ids are a stable one-to-one interning.
//! Registration histories (direct, via parse incl. failed parses, html5(),
//! store clones) interleaved across logical clients against a map model, past
//! the 16-bit id width.

use crate::absdoc::{LOCALS, PREFIXES, URIS};
use crate::driver::{real_call, EngineFailure, PropEngine};
use crate::gen;
use crate::hashseam;
use crate::known::KnownFile;
use crate::rng::{Fnv, Rng};
use crate::stats::Stats;
use crate::world::Violation;
use crate::xmlscan;
use serde::{Deserialize, Serialize};
use serde_json::Value;
use std::collections::BTreeMap;
use xot::{NameId, NamespaceId, Node, PrefixId, Xot};

fn v(class: &'static str, msg: String) -> Violation {
    Violation::new("C08", class, msg)
}

const XML_NS: &str = "http://www.w3.org/XML/1998/namespace";

#[derive(Clone, Debug, Serialize, Deserialize, PartialEq)]
pub enum IdOp {
    AddName(String),
    AddNameNs(String, String),
    AddNamespace(String),
    AddPrefix(String),
    LookupName(String, String),
    LookupNamespace(String),
    LookupPrefix(String),
    Parse(String, bool),
    /// xmlname::OwnedName::new(local, namespace, prefix).to_ref(&mut xot) (registers all three)
    OwnedToRef(String, String, String),
    /// ... .maybe_to_ref(&xot) (read-only), compared under a second prefix as well
    OwnedMaybeToRef(String, String, String, String),
    /// ... .to_create(&mut xot) and xmlname::CreateName / CreateNamespace constructors
    CreateViaXmlname(String, String, String),
    /// CreateName::parse_full_name / OwnedName::parse_full_name of "prefix:local" with a lookup that
    /// maps exactly that prefix to the namespace
    ParseFullName(String, String, String),
    Html5,
    /// clone the store and continue on the clone
    ForkContinueOnClone,
    /// copy the store with Clone::clone_from into a store that has registrations of its own (the
    /// given strings, as name, prefix and namespace) and continue on that copy
    ContinueViaCloneFrom(Vec<String>),
    /// clone the store, register `n` fresh names in the clone, drop it
    ForkScratch(u32),
    /// register `n` fresh entries in every table (past any fixed id width)
    Bulk(u32),
    CheckAll,
}

#[derive(Clone, Debug, Serialize, Deserialize)]
pub struct C08Replay {
    pub hash_seed: u64,
    pub ops: Vec<IdOp>,
}

struct IdWorld {
    x: Xot,
    ns: BTreeMap<String, NamespaceId>,
    ns_rev: BTreeMap<NamespaceId, String>,
    px: BTreeMap<String, PrefixId>,
    px_rev: BTreeMap<PrefixId, String>,
    nm: BTreeMap<(String, String), NameId>,
    nm_rev: BTreeMap<NameId, (String, String)>,
    /// parsed trees kept alive: (root, expanded element/attribute names in document order)
    trees: Vec<(Node, Vec<(String, String)>)>,
    bulk_counter: u64,
}

impl IdWorld {
    fn new() -> Result<Self, Violation> {
        let x = Xot::new();
        let mut w = IdWorld {
            x,
            ns: BTreeMap::new(),
            ns_rev: BTreeMap::new(),
            px: BTreeMap::new(),
            px_rev: BTreeMap::new(),
            nm: BTreeMap::new(),
            nm_rev: BTreeMap::new(),
            trees: vec![],
            bulk_counter: 0,
        };
        // built-ins
        let (nons, xmlns, epx, xpx, sp, id) =
            (w.x.no_namespace(), w.x.xml_namespace(), w.x.empty_prefix(), w.x.xml_prefix(), w.x.xml_space_name(), w.x.xml_id_name());
        if nons == xmlns || epx == xpx || sp == id {
            return Err(v("builtin-wrong", "built-in ids are not distinct".into()));
        }
        w.rec_ns("", nons)?;
        w.rec_ns(XML_NS, xmlns)?;
        w.rec_px("", epx)?;
        w.rec_px("xml", xpx)?;
        w.rec_nm("space", XML_NS, sp)?;
        w.rec_nm("id", XML_NS, id)?;
        w.check_builtins()?;
        Ok(w)
    }
    fn check_builtins(&self) -> Result<(), Violation> {
        let x = &self.x;
        let ok = x.namespace_str(x.no_namespace()) == ""
            && x.namespace_str(x.xml_namespace()) == XML_NS
            && x.prefix_str(x.empty_prefix()) == ""
            && x.prefix_str(x.xml_prefix()) == "xml"
            && x.name_ns_str(x.xml_space_name()) == ("space", XML_NS)
            && x.name_ns_str(x.xml_id_name()) == ("id", XML_NS)
            && x.namespace("") == Some(x.no_namespace())
            && x.prefix("") == Some(x.empty_prefix())
            && x.prefix("xml") == Some(x.xml_prefix())
            && x.namespace(XML_NS) == Some(x.xml_namespace())
            && x.name_ns("id", x.xml_namespace()) == Some(x.xml_id_name())
            && x.name_ns("space", x.xml_namespace()) == Some(x.xml_space_name());
        if !ok {
            return Err(v("builtin-wrong", "a built-in id no longer resolves to its standard string".into()));
        }
        Ok(())
    }
    fn rec_ns(&mut self, s: &str, id: NamespaceId) -> Result<(), Violation> {
        match self.ns.get(s) {
            Some(old) => {
                if *old != id {
                    return Err(v("id-split", format!("namespace {:?} registered again got {:?}, earlier {:?}", s, id, old)));
                }
            }
            None => {
                if let Some(other) = self.ns_rev.get(&id) {
                    return Err(v("id-collision", format!("namespace {:?} got id {:?} which already denotes {:?}", s, id, other)));
                }
                self.ns.insert(s.to_string(), id);
                self.ns_rev.insert(id, s.to_string());
            }
        }
        if self.x.namespace_str(id) != s {
            return Err(v("lookup-wrong", format!("namespace_str({:?}) = {:?}, registered {:?}", id, self.x.namespace_str(id), s)));
        }
        Ok(())
    }
    fn rec_px(&mut self, s: &str, id: PrefixId) -> Result<(), Violation> {
        match self.px.get(s) {
            Some(old) => {
                if *old != id {
                    return Err(v("id-split", format!("prefix {:?} registered again got {:?}, earlier {:?}", s, id, old)));
                }
            }
            None => {
                if let Some(other) = self.px_rev.get(&id) {
                    return Err(v("id-collision", format!("prefix {:?} got id {:?} which already denotes {:?}", s, id, other)));
                }
                self.px.insert(s.to_string(), id);
                self.px_rev.insert(id, s.to_string());
            }
        }
        if self.x.prefix_str(id) != s {
            return Err(v("lookup-wrong", format!("prefix_str({:?}) = {:?}, registered {:?}", id, self.x.prefix_str(id), s)));
        }
        Ok(())
    }
    fn rec_nm(&mut self, local: &str, uri: &str, id: NameId) -> Result<(), Violation> {
        let key = (local.to_string(), uri.to_string());
        match self.nm.get(&key) {
            Some(old) => {
                if *old != id {
                    return Err(v("id-split", format!("name {:?} registered again got {:?}, earlier {:?}", key, id, old)));
                }
            }
            None => {
                if let Some(other) = self.nm_rev.get(&id) {
                    return Err(v("id-collision", format!("name {:?} got id {:?} which already denotes {:?}", key, id, other)));
                }
                self.nm.insert(key.clone(), id);
                self.nm_rev.insert(id, key.clone());
            }
        }
        self.check_name(id, &key)
    }
    fn check_name(&self, id: NameId, key: &(String, String)) -> Result<(), Violation> {
        let x = &self.x;
        let (l, u) = x.name_ns_str(id);
        if l != key.0 || u != key.1 || x.local_name_str(id) != key.0 || x.uri_str(id) != key.1 {
            return Err(v("lookup-wrong", format!("name id {:?} resolves to ({:?},{:?}), registered {:?}", id, l, u, key)));
        }
        let nsid = x.namespace_for_name(id);
        if self.ns.get(&key.1) != Some(&nsid) {
            return Err(v("lookup-wrong", format!("namespace_for_name({:?}) is not the id of {:?}", id, key.1)));
        }
        Ok(())
    }
    /// every id handed out so far still means what it meant
    fn check_all(&self, sample: Option<(&mut Rng, usize)>) -> Result<(), Violation> {
        self.check_builtins()?;
        let x = &self.x;
        let pick = |n: usize, i: usize, s: &Option<(u64, usize)>| -> bool {
            match s {
                None => true,
                Some((salt, k)) => n <= *k || (crate::rng::mix(*salt, i as u64, 7) % (n as u64)) < *k as u64,
            }
        };
        let s = sample.map(|(r, k)| (r.next(), k));
        for (i, (k, id)) in self.ns.iter().enumerate() {
            if !pick(self.ns.len(), i, &s) {
                continue;
            }
            if x.namespace_str(*id) != k {
                return Err(v("id-unstable", format!("namespace id {:?} now resolves to {:?}, was {:?}", id, x.namespace_str(*id), k)));
            }
            if x.namespace(k) != Some(*id) {
                return Err(v("lookup-wrong", format!("namespace({:?}) = {:?}, registered as {:?}", k, x.namespace(k), id)));
            }
        }
        for (i, (k, id)) in self.px.iter().enumerate() {
            if !pick(self.px.len(), i, &s) {
                continue;
            }
            if x.prefix_str(*id) != k {
                return Err(v("id-unstable", format!("prefix id {:?} now resolves to {:?}, was {:?}", id, x.prefix_str(*id), k)));
            }
            if x.prefix(k) != Some(*id) {
                return Err(v("lookup-wrong", format!("prefix({:?}) = {:?}, registered as {:?}", k, x.prefix(k), id)));
            }
        }
        for (i, (k, id)) in self.nm.iter().enumerate() {
            if !pick(self.nm.len(), i, &s) {
                continue;
            }
            self.check_name(*id, k).map_err(|mut e| {
                e.class = "id-unstable";
                e
            })?;
            let nsid = self.ns[&k.1];
            if x.name_ns(&k.0, nsid) != Some(*id) {
                return Err(v("lookup-wrong", format!("name_ns({:?}) = {:?}, registered as {:?}", k, x.name_ns(&k.0, nsid), id)));
            }
            if k.1.is_empty() && x.name(&k.0) != Some(*id) {
                return Err(v("lookup-wrong", format!("name({:?}) = {:?}, registered as {:?}", k.0, x.name(&k.0), id)));
            }
        }
        // names in existing trees still read back their expanded names
        for (root, names) in &self.trees {
            let got = tree_names(x, *root);
            if got != *names {
                return Err(v("id-unstable", format!("names of an existing tree changed: {:?} -> {:?}", names, got)));
            }
        }
        Ok(())
    }
    /// read-only lookups must not find what was never registered
    fn check_absent(&self, local: &str, uri: &str) -> Result<(), Violation> {
        let x = &self.x;
        if !self.ns.contains_key(uri) {
            if let Some(id) = x.namespace(uri) {
                return Err(v("lookup-wrong", format!("namespace({:?}) finds {:?} although it was never registered", uri, id)));
            }
            return Ok(());
        }
        let nsid = self.ns[uri];
        if !self.nm.contains_key(&(local.to_string(), uri.to_string())) {
            if let Some(id) = x.name_ns(local, nsid) {
                return Err(v("lookup-wrong", format!("name_ns({:?},{:?}) finds {:?} although it was never registered", local, uri, id)));
            }
        }
        Ok(())
    }
    /// learn what a parse (successful or not) interned: every candidate string
    /// that the read-only lookups now find must resolve to itself and be new
    fn learn_from_text(&mut self, text: &str) -> Result<(), Violation> {
        // candidate tokens: maximal runs of name characters, and quoted strings
        let mut cands: Vec<String> = vec![];
        let mut cur = String::new();
        for c in text.chars() {
            if c.is_alphanumeric() || c == '_' || c == '-' || c == '.' {
                cur.push(c);
            } else if !cur.is_empty() {
                cands.push(std::mem::take(&mut cur));
            }
        }
        if !cur.is_empty() {
            cands.push(cur);
        }
        let mut quoted: Vec<String> = vec![];
        for q in ['"', '\''] {
            let parts: Vec<&str> = text.split(q).collect();
            for (i, p) in parts.iter().enumerate() {
                if i % 2 == 1 {
                    quoted.push(p.to_string());
                }
            }
        }
        // namespace URIs of the generators all look like urn:...; quotes inside
        // character data can throw the quote splitting off, so scan for them too
        let mut cur = String::new();
        for c in text.chars().chain(std::iter::once(' ')) {
            if c.is_alphanumeric() || c == ':' || c == '.' || c == '-' || c == '_' {
                cur.push(c);
            } else {
                if let Some(i) = cur.find("urn:") {
                    quoted.push(cur[i..].to_string());
                }
                cur.clear();
            }
        }
        for u in URIS.iter() {
            quoted.push(u.to_string());
        }
        for u in ["urn: x", "urn: y", "urn:v", "https://www.w3.org/1999/xhtml", "http://www.w3.org/1998/Math/MathML", "http://www.w3.org/2000/svg"] {
            quoted.push(u.to_string());
        }
        cands.sort();
        cands.dedup();
        for c in &cands {
            if let Some(id) = self.x.prefix(c) {
                self.rec_px(c, id)?;
            }
        }
        for qs in &quoted {
            if let Some(id) = self.x.namespace(qs) {
                self.rec_ns(qs, id)?;
            }
        }
        let nss: Vec<(String, NamespaceId)> = self.ns.iter().map(|(k, val)| (k.clone(), *val)).collect();
        for c in &cands {
            for (uri, nsid) in &nss {
                if let Some(id) = self.x.name_ns(c, *nsid) {
                    self.rec_nm(c, uri, id)?;
                }
            }
        }
        Ok(())
    }
}

fn tree_names(x: &Xot, root: Node) -> Vec<(String, String)> {
    let mut out = vec![];
    for n in x.descendants(root).take(5000) {
        if let Some(pi) = x.processing_instruction(n) {
            let (l, u) = x.name_ns_str(pi.target());
            out.push((format!("?{}", l), u.to_string()));
        }
        if let Some(e) = x.element(n) {
            let (l, u) = x.name_ns_str(e.name());
            out.push((l.to_string(), u.to_string()));
            for (k, _) in x.attributes(n).iter() {
                let (l, u) = x.name_ns_str(k);
                out.push((format!("@{}", l), u.to_string()));
            }
        }
    }
    out
}

/// expanded names per an independent resolution of the source text
fn resolved_names(text: &str) -> Option<Vec<(String, String)>> {
    let evs = xmlscan::scan(text).ok()?;
    let r = xmlscan::resolve(&evs).ok()?;
    let mut out = vec![];
    let mut it = r.into_iter();
    for ev in &evs {
        match ev {
            xmlscan::Ev::Start { .. } => {
                let e = it.next()?;
                out.push((e.local.clone(), e.uri.clone()));
                for (l, u, _) in e.attrs {
                    out.push((format!("@{}", l), u));
                }
            }
            // a processing-instruction target is a name in no namespace, wherever it stands
            // (malformed PIs - junk right after the target - are C03's subject: only the name counts)
            xmlscan::Ev::PI(t, _) => {
                let name: String = t.chars().take_while(|c| c.is_alphanumeric() || matches!(c, '-' | '_' | '.' | ':')).collect();
                out.push((format!("?{}", name), String::new()))
            }
            _ => {}
        }
    }
    Some(out)
}

fn apply(w: &mut IdWorld, op: &IdOp, stats: &mut Stats, rng_salt: u64) -> Result<(), Violation> {
    match op {
        IdOp::AddName(l) => {
            let id = w.x.add_name(l);
            w.rec_nm(l, "", id)?;
            stats.inc("op/add_name/ok");
        }
        IdOp::AddNameNs(l, u) => {
            let nsid = w.x.add_namespace(u);
            w.rec_ns(u, nsid)?;
            let id = w.x.add_name_ns(l, nsid);
            w.rec_nm(l, u, id)?;
            stats.inc("op/add_name_ns/ok");
        }
        IdOp::AddNamespace(u) => {
            let id = w.x.add_namespace(u);
            w.rec_ns(u, id)?;
            stats.inc("op/add_namespace/ok");
        }
        IdOp::AddPrefix(p) => {
            let id = w.x.add_prefix(p);
            w.rec_px(p, id)?;
            stats.inc("op/add_prefix/ok");
        }
        IdOp::LookupName(l, u) => {
            let key = (l.clone(), u.clone());
            match w.nm.get(&key) {
                Some(id) => {
                    let nsid = w.ns[u];
                    if w.x.name_ns(l, nsid) != Some(*id) {
                        return Err(v("lookup-wrong", format!("name_ns({:?}) does not find the registered id", key)));
                    }
                }
                None => w.check_absent(l, u)?,
            }
            stats.inc("op/name_ns/ok");
        }
        IdOp::LookupNamespace(u) => {
            if w.x.namespace(u) != w.ns.get(u).copied() {
                return Err(v("lookup-wrong", format!("namespace({:?}) = {:?}, model {:?}", u, w.x.namespace(u), w.ns.get(u))));
            }
            stats.inc("op/namespace/ok");
        }
        IdOp::LookupPrefix(p) => {
            if w.x.prefix(p) != w.px.get(p).copied() {
                return Err(v("lookup-wrong", format!("prefix({:?}) = {:?}, model {:?}", p, w.x.prefix(p), w.px.get(p))));
            }
            stats.inc("op/prefix/ok");
        }
        IdOp::OwnedToRef(l, u, p) => {
            use xot::xmlname::{NameStrInfo, OwnedName};
            let owned = OwnedName::new(l.clone(), u.clone(), p.clone());
            let r = real_call(|| {
                let rn = owned.to_ref(&mut w.x);
                let back = rn.to_owned();
                (rn.name_id(), rn.namespace_id(), rn.prefix_id(), rn.local_name().to_string(), rn.namespace().to_string(), rn.prefix().to_string(), back)
            });
            let (nid, nsid, pid, rl, ru, rp, back) = match r {
                Ok(t) => t,
                Err(_) => return Err(v("lookup-wrong", format!("OwnedName({:?},{:?},{:?}).to_ref unwinds", l, u, p))),
            };
            w.rec_ns(u, nsid)?;
            w.rec_px(p, pid)?;
            w.rec_nm(l, u, nid)?;
            if (&rl, &ru, &rp) != (l, u, p) {
                return Err(v("lookup-wrong", format!("RefName of ({:?},{:?},{:?}) reads back ({:?},{:?},{:?})", l, u, p, rl, ru, rp)));
            }
            if back != owned || back.prefix() != p || back.local_name() != l || back.namespace() != u {
                return Err(v("lookup-wrong", format!("OwnedName -> RefName -> OwnedName of ({:?},{:?},{:?}) gives {:?}", l, u, p, back)));
            }
            stats.inc("op/xmlname_owned_to_ref/ok");
        }
        IdOp::OwnedMaybeToRef(l, u, p, p2) => {
            use std::hash::{Hash, Hasher};
            use xot::xmlname::OwnedName;
            let a = OwnedName::new(l.clone(), u.clone(), p.clone());
            let b = OwnedName::new(l.clone(), u.clone(), p2.clone());
            // an owned name is its expanded name: the prefix takes no part in equality or hashing
            let hash = |n: &OwnedName| {
                let mut h = std::collections::hash_map::DefaultHasher::new();
                n.hash(&mut h);
                h.finish()
            };
            if a != b || hash(&a) != hash(&b) {
                return Err(v("lookup-wrong", format!("OwnedName ({:?},{:?}) under prefixes {:?} and {:?} compares / hashes differently", l, u, p, p2)));
            }
            let other = OwnedName::new(l.clone(), format!("{}#", u), p.clone());
            if a == other {
                return Err(v("id-collision", format!("OwnedName ({:?},{:?}) equals the same local name in another namespace", l, u)));
            }
            let expect = if w.ns.contains_key(u) { w.nm.get(&(l.clone(), u.clone())).copied() } else { None };
            for (o, px) in [(&a, p), (&b, p2)] {
                let got = match real_call(|| o.maybe_to_ref(&w.x).map(|r| (r.name_id(), r.prefix_id()))) {
                    Ok(g) => g,
                    Err(_) => return Err(v("lookup-wrong", format!("OwnedName({:?},{:?},{:?}).maybe_to_ref unwinds", l, u, px))),
                };
                if got.map(|g| g.0) != expect {
                    return Err(v("lookup-wrong", format!("OwnedName({:?},{:?},{:?}).maybe_to_ref finds {:?}, registered is {:?}", l, u, px, got.map(|g| g.0), expect)));
                }
                if let Some((_, pid)) = got {
                    let want = w.px.get(px).copied().unwrap_or(w.x.empty_prefix());
                    if pid != want {
                        return Err(v("lookup-wrong", format!("maybe_to_ref of prefix {:?} gives prefix id {:?}, expected {:?}", px, pid, want)));
                    }
                }
            }
            stats.inc("op/xmlname_owned_maybe_to_ref/ok");
        }
        IdOp::CreateViaXmlname(l, u, p) => {
            use xot::xmlname::{CreateName, CreateNamespace, OwnedName};
            let r = real_call(|| {
                let cns = CreateNamespace::new(&mut w.x, p, u);
                let a = CreateName::namespaced(&mut w.x, l, &cns).name_id();
                let b = OwnedName::new(l.clone(), u.clone(), p.clone()).to_create(&mut w.x).name_id();
                let nsid = cns.namespace_id();
                let c = CreateName::prefixed(&mut w.x, p, l, |q| if q == p { Some(nsid) } else { None }).map(|c| c.name_id());
                let d = CreateName::name(&mut w.x, l).name_id();
                (cns.prefix_id(), nsid, a, b, c, d)
            });
            let (pid, nsid, a, b, c, d) = match r {
                Ok(t) => t,
                Err(_) => return Err(v("lookup-wrong", format!("xmlname constructors unwind for ({:?},{:?},{:?})", l, u, p))),
            };
            w.rec_px(p, pid)?;
            w.rec_ns(u, nsid)?;
            w.rec_nm(l, u, a)?;
            w.rec_nm(l, u, b)?;
            match c {
                Ok(c) => w.rec_nm(l, u, c)?,
                Err(e) => return Err(v("lookup-wrong", format!("CreateName::prefixed with a resolving lookup failed: {:?}", e))),
            }
            w.rec_nm(l, "", d)?;
            stats.inc("op/xmlname_create/ok");
        }
        IdOp::ParseFullName(p, l, u) => {
            use xot::xmlname::{CreateName, NameStrInfo, OwnedName};
            // (a local name or prefix with a colon in it would be split elsewhere: not what is under test)
            if p.contains(':') || l.contains(':') {
                return Ok(());
            }
            let full = if p.is_empty() { l.clone() } else { format!("{}:{}", p, l) };
            let r = real_call(|| {
                let nsid = w.x.add_namespace(u);
                let c = CreateName::parse_full_name(&mut w.x, &full, |q| if q == p { Some(nsid) } else { None }).map(|c| c.name_id());
                let o = OwnedName::parse_full_name(&full, |q| if q == p { Some(u.clone()) } else { None })
                    .map(|o| (o.local_name().to_string(), o.namespace().to_string(), o.prefix().to_string()));
                (nsid, c, o)
            });
            let (nsid, c, o) = match r {
                Ok(t) => t,
                Err(_) => return Err(v("lookup-wrong", format!("parse_full_name({:?}) unwinds", full))),
            };
            w.rec_ns(u, nsid)?;
            match c {
                Ok(id) => w.rec_nm(l, u, id)?,
                Err(e) => return Err(v("lookup-wrong", format!("CreateName::parse_full_name({:?}) with a resolving lookup failed: {:?}", full, e))),
            }
            match o {
                Ok(t) if t == (l.clone(), u.clone(), p.clone()) => {}
                other => return Err(v("lookup-wrong", format!("OwnedName::parse_full_name({:?}) gives {:?}, expected ({:?},{:?},{:?})", full, other.map_err(|e| format!("{:?}", e)), l, u, p))),
            }
            stats.inc("op/xmlname_parse_full_name/ok");
        }
        IdOp::Parse(text, fragment) => {
            let r = real_call(|| if *fragment { w.x.parse_fragment(text) } else { w.x.parse(text) });
            match r {
                Ok(Ok(root)) => {
                    stats.inc("op/parse/ok");
                    w.learn_from_text(text)?;
                    let got = tree_names(&w.x, root);
                    if let Some(exp) = resolved_names(text) {
                        if got != exp {
                            return Err(v(
                                "lookup-wrong",
                                format!("parse of {:?}: names read back as {:?}, the text says {:?}", text, got, exp),
                            ));
                        }
                    }
                    // the ids in the tree are the registered ids of their expanded names
                    for n in w.x.descendants(root).take(5000).collect::<Vec<_>>() {
                        if let Some(pi) = w.x.processing_instruction(n) {
                            let id = pi.target();
                            let (l, u) = w.x.name_ns_str(id);
                            let (l, u) = (l.to_string(), u.to_string());
                            let nsid = w.x.namespace_for_name(id);
                            w.rec_ns(&u, nsid)?;
                            w.rec_nm(&l, &u, id)?;
                        }
                        if let Some(e) = w.x.element(n) {
                            let id = e.name();
                            let (l, u) = w.x.name_ns_str(id);
                            let (l, u) = (l.to_string(), u.to_string());
                            let nsid = w.x.namespace_for_name(id);
                            w.rec_ns(&u, nsid)?;
                            w.rec_nm(&l, &u, id)?;
                            let keys: Vec<NameId> = w.x.attributes(n).keys().collect();
                            for k in keys {
                                let (l, u) = w.x.name_ns_str(k);
                                let (l, u) = (l.to_string(), u.to_string());
                                let nsid = w.x.namespace_for_name(k);
                                w.rec_ns(&u, nsid)?;
                                w.rec_nm(&l, &u, k)?;
                            }
                            let decls: Vec<(PrefixId, NamespaceId)> = w.x.namespaces(n).iter().map(|(p, u)| (p, *u)).collect();
                            for (p, u) in decls {
                                let ps = w.x.prefix_str(p).to_string();
                                let us = w.x.namespace_str(u).to_string();
                                w.rec_px(&ps, p)?;
                                w.rec_ns(&us, u)?;
                            }
                        }
                    }
                    if w.trees.len() < 6 {
                        w.trees.push((root, got));
                    }
                }
                Ok(Err(_)) => {
                    stats.inc("op/parse/err");
                    stats.inc("fault/failed_parse");
                    // a failed parse may have interned names: they must be consistent
                    w.learn_from_text(text)?;
                }
                Err(_) => {
                    stats.inc("op/parse/panic");
                    // totality of the parser is C03's subject; the ids must still be intact
                    w.learn_from_text(text)?;
                }
            }
        }
        IdOp::Html5 => {
            let _ = w.x.html5();
            stats.inc("op/html5/ok");
            // html5() registers the XHTML/MathML/SVG namespaces and element names
            for u in ["https://www.w3.org/1999/xhtml", "http://www.w3.org/1999/xhtml", "http://www.w3.org/1998/Math/MathML", "http://www.w3.org/2000/svg"] {
                if let Some(id) = w.x.namespace(u) {
                    w.rec_ns(u, id)?;
                }
            }
            let nss: Vec<(String, NamespaceId)> = w.ns.iter().map(|(k, val)| (k.clone(), *val)).collect();
            // everything the generator's finite string pools can ask for later is learned now
            let mut cands: Vec<&str> = vec!["html", "br", "script", "style", "pre", "textarea", "span", "div", "area", "img", "xml", "", "é-ü", "p", "table", "TABLE", "xmlns"];
            cands.extend(LOCALS.iter().copied());
            cands.extend(PREFIXES.iter().copied());
            cands.extend(URIS.iter().copied());
            for l in cands {
                for (u, nsid) in &nss {
                    if let Some(id) = w.x.name_ns(l, *nsid) {
                        w.rec_nm(l, u, id)?;
                    }
                }
            }
        }
        IdOp::ForkContinueOnClone => {
            let c = w.x.clone();
            w.x = c;
            stats.inc("fault/store_fork_continue_on_clone");
            w.check_all(None)?;
        }
        IdOp::ContinueViaCloneFrom(own) => {
            let mut target = Xot::new();
            for s0 in own {
                target.add_name(s0);
                target.add_prefix(s0);
                let ns = target.add_namespace(s0);
                target.add_name_ns(s0, ns);
            }
            target.clone_from(&w.x);
            w.x = target;
            stats.inc("fault/store_copied_with_clone_from_over_a_used_store");
            w.check_all(None)?;
            // what only the overwritten store knew is not there any more
            for s0 in own {
                w.check_absent(s0, "")?;
                w.check_absent(s0, s0)?;
                if !w.px.contains_key(s0) {
                    if let Some(id) = w.x.prefix(s0) {
                        return Err(v("lookup-wrong", format!("prefix({:?}) finds {:?}: a registration of the store that clone_from overwrote", s0, id)));
                    }
                }
            }
        }
        IdOp::ForkScratch(n) => {
            let mut c = w.x.clone();
            for i in 0..*n {
                c.add_name(&format!("scratch{}", i));
                c.add_prefix(&format!("scratch{}", i));
            }
            drop(c);
            stats.inc("fault/store_fork_scratch_registrations");
            // registrations in the clone must not be visible in the original
            if *n > 0 {
                if let Some(id) = w.x.name("scratch0") {
                    if !w.nm.contains_key(&("scratch0".to_string(), String::new())) {
                        return Err(v("id-unstable", format!("a name registered in a clone is visible in the original as {:?}", id)));
                    }
                }
            }
        }
        IdOp::Bulk(n) => {
            for _ in 0..*n {
                let i = w.bulk_counter;
                w.bulk_counter += 1;
                let s = format!("k{}", i);
                let id = w.x.add_name(&s);
                w.rec_nm(&s, "", id)?;
                let u = format!("urn:bulk:{}", i);
                let nid = w.x.add_namespace(&u);
                w.rec_ns(&u, nid)?;
                let pid = w.x.add_prefix(&s);
                w.rec_px(&s, pid)?;
            }
            stats.add("probe/c08_bulk_registrations", *n as u64);
            if w.nm.len() > 65_536 {
                stats.inc("probe/c08_more_than_65536_names_registered");
            }
            w.check_all(Some((&mut Rng::new(rng_salt), 2000)))?;
        }
        IdOp::CheckAll => {
            w.check_all(None)?;
        }
    }
    Ok(())
}

fn run_ops(r: &C08Replay, stats: &mut Stats) -> (Option<(usize, Violation)>, u64) {
    hashseam::reseed(r.hash_seed);
    let mut digest = Fnv::new();
    let mut w = match IdWorld::new() {
        Ok(w) => w,
        Err(e) => return (Some((0, e)), 0),
    };
    for (i, op) in r.ops.iter().enumerate() {
        stats.steps += 1;
        // a registration or lookup that unwinds (e.g. an id that indexes past its table) is a
        // violation of this property, not a harness error
        let res = real_call(|| -> Result<(), Violation> {
            apply(&mut w, op, stats, r.hash_seed ^ i as u64)?;
            // sampled stability check after every step
            let mut rr = Rng::new(r.hash_seed ^ (i as u64) << 8);
            w.check_all(Some((&mut rr, 24)))
        });
        let res = match res {
            Ok(r) => r,
            Err(_) => Err(v("lookup-wrong", format!("a registration or lookup panicked at {:?}", op))),
        };
        if let Err(e) = res {
            return (Some((i, e)), digest.0);
        }
        digest.u64(w.nm.len() as u64);
        digest.u64(w.ns.len() as u64);
        digest.u64(w.px.len() as u64);
    }
    match real_call(|| w.check_all(None)) {
        Ok(Ok(())) => {}
        Ok(Err(e)) => return (Some((r.ops.len(), e)), digest.0),
        Err(_) => return (Some((r.ops.len(), v("lookup-wrong", "a lookup panicked in the final check".into()))), digest.0),
    }
    (None, digest.0)
}

fn gen_ops(rng: &mut Rng, run_index: u64) -> Vec<IdOp> {
    let mut ops = vec![];
    let n = rng.range(8, 60);
    let long = "x".repeat(300);
    let pool = |rng: &mut Rng| -> String {
        match rng.below(13) {
            0 => String::new(),
            // one-character strings whose code points agree in their low byte / low 16 bits
            10 => rng.pick_str(&["a", "\u{161}", "\u{461}", "A", "\u{441}", "-", "\u{4e2d}", "\u{10061}", "\u{e9}", "\u{1e9}"]).to_string(),
            // strings that differ from a built-in only in case or by a character
            11 => rng.pick_str(&["XML", "Xml", "xmL", "xmlns", "XMLNS", "ID", "Id", "SPACE", "Space", "xml ", "xml:", "id", "space"]).to_string(),
            1 => long.clone(),
            2 => format!("fresh{}", rng.below(100000)),
            3 => rng.pick_str(&URIS).to_string(), // equal strings across the three tables
            8 => rng.pick_str(&["div", "p", "table", "html", "br", "TABLE"]).to_string(), // names html5() knows
            4 => rng.pick_str(&PREFIXES).to_string(),
            5 => "xml".to_string(),
            6 => "é-ü".to_string(),
            _ => rng.pick_str(&LOCALS).to_string(),
        }
    };
    let upool = |rng: &mut Rng| -> String {
        match rng.below(9) {
            0 => String::new(),
            1 => XML_NS.to_string(),
            8 => rng.pick_str(&["HTTP://WWW.W3.ORG/XML/1998/NAMESPACE", "http://www.w3.org/XML/1998/namespace/", "http://www.w3.org/xml/1998/namespace", "http://www.w3.org/2000/xmlns/", "URN:X", " "]).to_string(),
            2 => format!("urn:fresh:{}", rng.below(1000)),
            3 => rng.pick_str(&LOCALS).to_string(),
            // the namespaces html5() registers (the first is xot's spelling of the XHTML namespace)
            4 => rng.pick_str(&["https://www.w3.org/1999/xhtml", "http://www.w3.org/1998/Math/MathML", "http://www.w3.org/2000/svg"]).to_string(),
            _ => rng.pick_str(&URIS).to_string(),
        }
    };
    // one run shape registers more than 65 536 entries per table
    let bulk_run = run_index % 400 == 7;
    for i in 0..n {
        let op = match rng.below(24) {
            23 => IdOp::ParseFullName(if rng.pct(25) { String::new() } else { pool(rng) }, pool(rng), upool(rng)),
            20 => IdOp::OwnedToRef(pool(rng), upool(rng), pool(rng)),
            21 => IdOp::OwnedMaybeToRef(pool(rng), upool(rng), if rng.pct(50) { String::new() } else { pool(rng) }, pool(rng)),
            22 => IdOp::CreateViaXmlname(pool(rng), upool(rng), pool(rng)),
            0 | 1 | 2 => IdOp::AddName(pool(rng)),
            3 | 4 | 5 => IdOp::AddNameNs(pool(rng), upool(rng)),
            6 => IdOp::AddNamespace(upool(rng)),
            7 | 8 => IdOp::AddPrefix(pool(rng)),
            9 | 10 => IdOp::LookupName(pool(rng), upool(rng)),
            11 => IdOp::LookupNamespace(upool(rng)),
            12 => IdOp::LookupPrefix(pool(rng)),
            13 | 14 | 15 => {
                let fragment = rng.pct(30);
                let mut t = gen::gen_xml_text(rng, fragment);
                // less-travelled spellings: literal TAB / LF inside a namespace name (normalised to a
                // space like in any attribute value), and an ordinary attribute called p:xmlns
                if rng.pct(8) {
                    t = t.replacen("=\"urn:x\"", "=\"urn:\tx\"", 1);
                }
                if rng.pct(8) {
                    t = t.replacen("=\"urn:y\"", "=\"urn:\ny\"", 1);
                }
                if rng.pct(10) {
                    for p in ["p", "q", "r"] {
                        let decl = format!(" xmlns:{}=\"", p);
                        if let Some(i) = t.find(&decl) {
                            if let Some(j) = t[i + decl.len()..].find('"') {
                                let at = i + decl.len() + j + 1;
                                t.insert_str(at, &format!(" {}:xmlns=\"urn:v\"", p));
                                break;
                            }
                        }
                    }
                }
                if rng.pct(6) {
                    // the library lets a document bind the xml prefix to something else: names written
                    // with it then belong to that namespace
                    if let Some(i) = t.find(|c: char| c == '>' || c == '/') {
                        if t.starts_with('<') && !t.starts_with("<?") && !t.starts_with("<!") && !t[..i].contains("xml:") {
                            t.insert_str(i, " xmlns:xml=\"urn:not-xml\" xml:zz=\"1\" xml:id=\" v \"");
                        }
                    }
                }
                if rng.pct(35) {
                    t = gen::damage_text(rng, &t);
                }
                IdOp::Parse(t, fragment)
            }
            16 => IdOp::Html5,
            17 if rng.pct(40) => IdOp::ContinueViaCloneFrom((0..rng.range(1, 4)).map(|_| pool(rng)).collect()),
            17 => IdOp::ForkContinueOnClone,
            18 => IdOp::ForkScratch(rng.range(1, 5) as u32),
            _ => IdOp::CheckAll,
        };
        ops.push(op);
        if bulk_run && i == n / 2 {
            ops.push(IdOp::Bulk(70_000));
            ops.push(IdOp::ForkContinueOnClone);
        }
    }
    ops
}

pub struct C08Engine;

impl PropEngine for C08Engine {
    fn id(&self) -> &'static str {
        "C08"
    }
    fn level(&self) -> &'static str {
        "exploration"
    }
    fn default_runs(&self, thorough: bool) -> u64 {
        if thorough {
            400_000
        } else {
            8_000
        }
    }
    fn run_one(&self, run_index: u64, run_seed: u64, _known: &KnownFile, stats: &mut Stats) -> Option<EngineFailure> {
        let mut rng = Rng::new(run_seed);
        let ops = gen_ops(&mut rng, run_index);
        let r = C08Replay { hash_seed: rng.next(), ops };
        stats.runs += 1;
        let (res, digest) = run_ops(&r, stats);
        stats.digest ^= crate::rng::mix(run_index, digest, res.is_some() as u64);
        let mut h = Fnv::new();
        h.str(&serde_json::to_string(&r.ops).unwrap());
        stats.set_insert("states", h.0);
        let regs = r.ops.iter().filter(|o| matches!(o, IdOp::AddName(_) | IdOp::AddNameNs(..) | IdOp::AddPrefix(_) | IdOp::AddNamespace(_) | IdOp::Parse(..))).count();
        let faults = r.ops.iter().filter(|o| matches!(o, IdOp::ForkContinueOnClone | IdOp::ForkScratch(_) | IdOp::Parse(..) | IdOp::Html5)).count();
        if regs >= 3 && faults >= 1 {
            stats.set_insert("nontrivial_traces", h.0);
        }
        if run_index < 2 {
            let s: Vec<String> = r.ops.iter().take(30).map(|o| format!("{:?}", o)).collect();
            stats.samples.insert(run_index, serde_json::json!(s));
        }
        res.map(|(i, viol)| {
            let mut ops = r.ops.clone();
            ops.truncate(i + 1);
            EngineFailure { violation: viol, replay: serde_json::to_value(&C08Replay { hash_seed: r.hash_seed, ops }).unwrap() }
        })
    }
    fn minimise(&self, f: EngineFailure, _known: &KnownFile) -> EngineFailure {
        let r: C08Replay = serde_json::from_value(f.replay.clone()).unwrap();
        let class = f.violation.class;
        let mut ops = r.ops.clone();
        let mut viol = f.violation.clone();
        let mut st = Stats::default();
        let mut i = 0;
        while i < ops.len() {
            let mut cand = ops.clone();
            cand.remove(i);
            let (res, _) = run_ops(&C08Replay { hash_seed: r.hash_seed, ops: cand.clone() }, &mut st);
            match res {
                Some((_, v2)) if v2.class == class => {
                    ops = cand;
                    viol = v2;
                }
                _ => i += 1,
            }
        }
        // shrink bulk sizes
        for i in 0..ops.len() {
            if let IdOp::Bulk(n) = ops[i] {
                for smaller in [65_531u32, 65_530] {
                    if smaller < n {
                        let mut cand = ops.clone();
                        cand[i] = IdOp::Bulk(smaller);
                        let (res, _) = run_ops(&C08Replay { hash_seed: r.hash_seed, ops: cand.clone() }, &mut st);
                        if let Some((_, v2)) = res {
                            if v2.class == class {
                                ops = cand;
                                viol = v2;
                            }
                        }
                    }
                }
            }
        }
        EngineFailure { violation: viol, replay: serde_json::to_value(&C08Replay { hash_seed: r.hash_seed, ops }).unwrap() }
    }
    fn replay(&self, replay: &Value, _known: &KnownFile, stats: &mut Stats) -> Option<Violation> {
        let r: C08Replay = match serde_json::from_value(replay.clone()) {
            Ok(r) => r,
            Err(e) => {
                eprintln!("harness error: bad C08 replay: {}", e);
                std::process::exit(2);
            }
        };
        run_ops(&r, stats).0.map(|x| x.1)
    }
    fn rule(&self) -> String {
        "Seeded histories of add_name / add_name_ns / add_namespace / add_prefix, read-only lookups of registered and unregistered strings, parse / parse_fragment of generated documents that use pooled and fresh names (35% damaged so that the parse fails after interning), html5(), and store forks (continue on a Xot::clone; register in a clone and drop it); strings from a small pool, fresh, empty, 300 characters long, equal across the three tables, names differing only by namespace; every 400th run registers 70 000 entries per table. Model: three maps string -> first returned id with reverse maps. Checked per step: a returned id equals an earlier one iff the key is the same; every lookup function returns the registered string; read-only lookups find exactly what is registered; built-ins distinct and standard; names of a parsed tree equal an independent resolution of the source text and carry the registered ids; stability of a sample of all earlier ids after every step and of all of them at checkpoints, after forks and at the end, incl. names of existing trees. Non-trivial = at least 3 registering operations and one fork/parse/html5; distinct = distinct operation list.".to_string()
    }
    fn assumptions(&self) -> Vec<String> {
        vec![
            "ids are compared through their Eq/Ord implementations only".into(),
            "what a failing parse interned is learned through the read-only lookups over the tokens of its text".into(),
            "sampling: evidence, not proof".into(),
        ]
    }
}
