//! C04, C05, C06 on the forest simulation.

use crate::driver::{EngineFailure, PropEngine};
use crate::forest::{self, Failure, ForestCfg, ForestReplay};
use crate::gen::Profile;
use crate::known::KnownFile;
use crate::rng::Rng;
use crate::stats::Stats;
use crate::world::Violation;
use serde_json::Value;

pub struct ForestEngine {
    pub cfg: ForestCfg,
    pub level: &'static str,
    pub quick_runs: u64,
    pub thorough_runs: u64,
    pub rule: &'static str,
}

fn shape_c04(p: &mut Profile, r: &mut Rng) {
    // histories incl. calls expected to be refused, attribute nodes as references,
    // allocate-after-remove (slot reuse)
    p.w_remove += 4;
    p.w_create += 3;
    p.w_special_node += 3;
    if r.pct(30) {
        p.fault_pct = p.fault_pct.max(25);
    }
}
fn shape_c05(p: &mut Profile, _r: &mut Rng) {
    // arguments that satisfy the documented preconditions dominate
    p.fault_pct = p.fault_pct.min(10);
    p.w_move += 10;
    p.w_replace += 2;
    p.w_wrap += 2;
}
fn shape_c06(p: &mut Profile, r: &mut Rng) {
    // the fault *is* the refused call
    p.fault_pct = *r.pick(&[25u32, 50, 75]);
    p.parse_fail_pct = p.parse_fail_pct.max(10);
    p.w_special_node += 4;
    p.w_convenience += 2;
    // repair bursts (with names that cannot be repaired among them: the call must then be refused
    // as a whole)
    p.motif_pct = *r.pick(&[0u32, 2, 4]);
    p.w_storewide = p.w_storewide.max(1);
}

/// a call that the model predicts to succeed and that leaves a structurally
/// invalid forest has not had the model's effect either
fn claim_c05(v: &Violation, op: &crate::ops::Op, _pre: &crate::world::World, info: &crate::engine::StepInfo) -> Option<Violation> {
    if v.property == "C04" && info.outcome == "ok" && info.pred == "done" && op.is_manipulation() {
        return Some(Violation::new("C05", "model-mismatch-structure", format!("after {}: {}", op.name(), v.msg)));
    }
    None
}

impl ForestEngine {
    pub fn c04() -> Self {
        ForestEngine {
            cfg: ForestCfg { property: "C04", extra: None, shape: shape_c04, enumerate_every: 0, claim: None, fork_check: false },
            level: "exploration",
            quick_runs: 30_000,
            thorough_runs: 1_500_000,
            rule: "Seeded multi-client operation histories on one shared Xot (swarm profile per run: 1-4 clients, 8-60 scheduled calls, operation mix, refusal-class arguments, failed parses, consolidation flips, stalls). After every call the whole forest is read back through the public accessors with bounded walks and the C04 invariants are checked (relations, acyclicity, orphan siblings, namespace<attribute<child order, unique keys, kind placement, adjacent text), every handle ever handed out is probed with is_removed (dead ones must stay removed after slot reuse) and xml_id_node results are checked. A trace is non-trivial and distinct when its full event-log digest is new and it contains >=3 effective manipulations and >=1 fired fault (refused call, failed parse or accepted call the documentation refuses).",
        }
    }
    pub fn c05() -> Self {
        ForestEngine {
            cfg: ForestCfg { property: "C05", extra: None, shape: shape_c05, enumerate_every: 400, claim: Some(claim_c05), fork_check: false },
            level: "exploration",
            quick_runs: 30_000,
            thorough_runs: 1_500_000,
            rule: "Same seeded histories, judged operation by operation against the ordered-forest reference model: after every successful call the complete read-back (structure, values, liveness of every handle, every other tree) must equal the model's prediction and string_value of every document/element must equal the model's concatenation; plus branch enumeration of all (operation, node, node) triples at sampled states. Non-trivial/distinct as for C04.",
        }
    }
    pub fn c06() -> Self {
        ForestEngine {
            cfg: ForestCfg { property: "C06", extra: None, shape: shape_c06, enumerate_every: 150, claim: None, fork_check: false },
            level: "fault_enumeration",
            quick_runs: 40_000,
            thorough_runs: 1_000_000,
            rule: "Every call is executed under catch_unwind on a clone of the store; a refusal (Err) must leave the read-back, the serialisation of every root and the liveness of every handle identical to the state before; unwinding is a violation except for the documented element-only accessors (not exercised on non-elements). Fault enumeration: at sampled states of seeded runs, every operation of the alphabet with every tuple of live nodes of all seven kinds. Non-trivial/distinct as for C04.",
        }
    }
}

/// C04 run shape "slot churn": remove / allocate on one arena slot far past indextree's stamp
/// range while stale handles of sampled generations are re-probed — the ABA case of this store.
pub fn slot_churn(cycles: u32, stats: &mut Stats) -> Option<Violation> {
    let mut x = xot::Xot::new();
    let mut stale: Vec<(u32, xot::Node)> = vec![];
    let keep = |i: u32| i < 4 || i.is_power_of_two() || (32_760..=32_775).contains(&i) || i % 8191 == 0;
    let r = crate::driver::real_call(|| {
        for i in 0..cycles {
            let h = x.new_text(&i.to_string());
            if x.is_removed(h) || x.text_str(h) != Some(i.to_string().as_str()) {
                return Some(Violation::new("C04", "handle-value", format!("slot churn: node allocated in generation {} does not read back", i)));
            }
            for (g, s) in &stale {
                if *s == h || !x.is_removed(*s) {
                    return Some(Violation::new(
                        "C04",
                        "resurrected-handle",
                        format!(
                            "slot churn: the handle of the node removed in generation {} {} the node allocated in generation {} (slot generation limit: stamp {})",
                            g,
                            if *s == h { "is equal to the handle of" } else { "is reported live again after" },
                            i,
                            crate::world::stamp_of(*s)
                        ),
                    ));
                }
            }
            if x.remove(h).is_err() {
                return Some(Violation::new("C04", "handle-value", "slot churn: remove failed".into()));
            }
            if !x.is_removed(h) {
                return Some(Violation::new("C04", "resurrected-handle", format!("slot churn: is_removed false right after remove in generation {}", i)));
            }
            if keep(i) {
                stale.push((i, h));
            }
        }
        None
    });
    stats.add("probe/slot_churn_generations", cycles as u64);
    stats.add("fault/stale_handles_probed_in_slot_churn", stale.len() as u64 * cycles as u64);
    match r {
        Ok(v) => v,
        Err(_) => Some(Violation::new("C04", "handle-value", "slot churn panicked".into())),
    }
}

fn to_failure(f: Failure) -> EngineFailure {
    EngineFailure { violation: f.violation, replay: serde_json::to_value(&f.replay).unwrap() }
}

impl PropEngine for ForestEngine {
    fn id(&self) -> &'static str {
        self.cfg.property
    }
    fn level(&self) -> &'static str {
        self.level
    }
    fn default_runs(&self, thorough: bool) -> u64 {
        if thorough {
            self.thorough_runs
        } else {
            self.quick_runs
        }
    }
    fn run_one(&self, run_index: u64, run_seed: u64, known: &KnownFile, stats: &mut Stats) -> Option<EngineFailure> {
        forest::run_one(&self.cfg, run_index, run_seed, known, stats).map(to_failure)
    }
    fn minimise(&self, f: EngineFailure, known: &KnownFile) -> EngineFailure {
        if f.replay.get("slot_churn").is_some() {
            return f;
        }
        let r: ForestReplay = serde_json::from_value(f.replay.clone()).unwrap();
        let fl = Failure { violation: f.violation.clone(), replay: r };
        let min = forest::minimise(&self.cfg, &fl, known);
        // re-derive the message from the minimised trace
        let mut st = Stats::default();
        let v = forest::replay(&self.cfg, &min, known, &mut st).unwrap_or(f.violation);
        EngineFailure { violation: v, replay: serde_json::to_value(&min).unwrap() }
    }
    fn replay(&self, replay: &Value, known: &KnownFile, stats: &mut Stats) -> Option<Violation> {
        if let Some(c) = replay.get("slot_churn").and_then(|c| c.as_u64()) {
            let v = slot_churn(c as u32, stats)?;
            if known.matches(v.property, v.class, "slot-churn", &v.msg).is_some() {
                return None;
            }
            return Some(v);
        }
        let r: ForestReplay = match serde_json::from_value(replay.clone()) {
            Ok(r) => r,
            Err(e) => {
                eprintln!("harness error: bad forest replay: {}", e);
                std::process::exit(2);
            }
        };
        forest::replay(&self.cfg, &r, known, stats)
    }
    fn rule(&self) -> String {
        self.rule.to_string()
    }
    fn fixed_part(&self, thorough: bool, known: &KnownFile, stats: &mut Stats) -> Option<EngineFailure> {
        if self.cfg.property != "C04" {
            return None;
        }
        let cycles = if thorough { 70_000 } else { 33_000 };
        let v = slot_churn(cycles, stats)?;
        if let Some(f) = known.matches(v.property, v.class, "slot-churn", &v.msg) {
            stats.inc(&format!("known_finding_hits/{}", f.id));
            return None;
        }
        Some(EngineFailure { violation: v, replay: serde_json::json!({"slot_churn": cycles}) })
    }
    fn assumptions(&self) -> Vec<String> {
        vec![
            "the reference model (sim/src/model.rs) encodes the documented behaviour correctly".into(),
            "read-back through the public accessors is trusted as the observation of the store".into(),
            "sampling: a clean batch is evidence, not proof; sizes are small (<= 60 nodes, <= 60 calls per run)".into(),
            "calls on removed nodes (documented to panic) and allocation failure are not exercised".into(),
        ]
    }
}
