//! Known findings: genuine defects of the pinned tree that are recorded, not
//! repaired (DESIGN §2.6). The file is read-only at run time.

use serde::Deserialize;

#[derive(Clone, Debug, Deserialize)]
pub struct Finding {
    pub id: String,
    pub property: String,
    pub status: String,
    pub class: String,
    /// glob over the classification cell ('*' wildcard); empty = any
    #[serde(default)]
    pub cell: String,
    /// optional substring the violation message must contain
    #[serde(default)]
    pub msg_contains: String,
    pub what: String,
    /// probe: engine-specific replay value that still exhibits the finding
    #[serde(default)]
    pub probe: serde_json::Value,
}

#[derive(Clone, Debug, Deserialize, Default)]
pub struct KnownFile {
    #[serde(default)]
    pub findings: Vec<Finding>,
    #[serde(default)]
    pub fixed: Vec<String>,
}

pub fn glob(pat: &str, s: &str) -> bool {
    if pat.is_empty() {
        return true;
    }
    let parts: Vec<&str> = pat.split('*').collect();
    if parts.len() == 1 {
        return pat == s;
    }
    let mut pos = 0usize;
    for (i, p) in parts.iter().enumerate() {
        if p.is_empty() {
            continue;
        }
        if i == 0 {
            if !s.starts_with(p) {
                return false;
            }
            pos = p.len();
        } else if i == parts.len() - 1 {
            return s.len() >= pos + p.len() && s[pos..].ends_with(p);
        } else {
            match s[pos..].find(p) {
                Some(j) => pos += j + p.len(),
                None => return false,
            }
        }
    }
    true
}

impl KnownFile {
    pub fn load() -> KnownFile {
        let root = std::env::var("VERIF_ROOT").unwrap_or_else(|_| "/verif".to_string());
        let path = format!("{}/known_findings.json", root);
        match std::fs::read_to_string(&path) {
            Ok(s) => match serde_json::from_str::<KnownFile>(&s) {
                Ok(k) => k,
                Err(e) => {
                    eprintln!("harness error: cannot parse {}: {}", path, e);
                    std::process::exit(2);
                }
            },
            Err(_) => KnownFile::default(),
        }
    }
    pub fn open_for(&self, property: &str) -> Vec<&Finding> {
        self.findings.iter().filter(|f| f.status == "open" && f.property == property).collect()
    }
    /// does an open finding cover this violation?
    pub fn matches(&self, property: &str, class: &str, cell: &str, msg: &str) -> Option<&Finding> {
        self.findings.iter().find(|f| {
            f.status == "open"
                && f.property == property
                && f.class == class
                && glob(&f.cell, cell)
                && (f.msg_contains.is_empty() || msg.contains(&f.msg_contains))
        })
    }
}
