//! Reference model: a plain ordered forest with owned strings (DESIGN §3).
//! Semantics are taken from the crate documentation and the property texts,
//! never from the implementation. Names are strings, not xot ids.

use serde::{Deserialize, Serialize};
use std::collections::{BTreeMap, BTreeSet};

/// Logical node id: (serial of the creating operation, k-th node created by it).
/// Stable under deletion of other operations from a trace.
pub type Lid = (u32, u16);

#[derive(Clone, Debug, PartialEq, Eq, PartialOrd, Ord, Serialize, Deserialize, Hash)]
pub struct Nm {
    pub local: String,
    pub uri: String,
}
impl Nm {
    pub fn new(local: &str, uri: &str) -> Self {
        Nm { local: local.to_string(), uri: uri.to_string() }
    }
}

#[derive(Clone, Debug, PartialEq, Eq, Serialize, Deserialize)]
pub enum Kind {
    Doc,
    Elem(Nm),
    Text(String),
    Comment(String),
    PI(Nm, Option<String>),
    Attr(Nm, String),
    Ns(String, String),
}

#[derive(Clone, Copy, Debug, PartialEq, Eq, PartialOrd, Ord, Hash, Serialize, Deserialize)]
pub enum K {
    Doc,
    Elem,
    Text,
    Comment,
    PI,
    Attr,
    Ns,
}
impl K {
    pub const ALL: [K; 7] = [K::Doc, K::Elem, K::Text, K::Comment, K::PI, K::Attr, K::Ns];
    pub fn short(self) -> &'static str {
        match self {
            K::Doc => "D",
            K::Elem => "E",
            K::Text => "T",
            K::Comment => "C",
            K::PI => "P",
            K::Attr => "A",
            K::Ns => "N",
        }
    }
}

impl Kind {
    pub fn k(&self) -> K {
        match self {
            Kind::Doc => K::Doc,
            Kind::Elem(_) => K::Elem,
            Kind::Text(_) => K::Text,
            Kind::Comment(_) => K::Comment,
            Kind::PI(..) => K::PI,
            Kind::Attr(..) => K::Attr,
            Kind::Ns(..) => K::Ns,
        }
    }
    pub fn is_text(&self) -> bool {
        matches!(self, Kind::Text(_))
    }
    pub fn is_normal(&self) -> bool {
        !matches!(self, Kind::Attr(..) | Kind::Ns(..))
    }
}

#[derive(Clone, Debug, PartialEq, Eq)]
pub struct MNode {
    pub kind: Kind,
    pub parent: Option<Lid>,
    pub ns: Vec<Lid>,
    pub attrs: Vec<Lid>,
    pub kids: Vec<Lid>,
    pub live: bool,
}

#[derive(Clone, Debug, PartialEq, Eq)]
pub enum Pred {
    /// the documented behaviour is a refusal; nothing may change
    Refuse,
    /// model state has been updated; optional returned node
    Done(Option<Lid>),
    /// documentation is silent: no prediction (C05 does not judge)
    Unknown,
}

#[derive(Clone, Debug)]
pub struct Model {
    pub nodes: BTreeMap<Lid, MNode>,
    pub roots: BTreeSet<Lid>,
    pub cons: bool,
    pub cons_ever_off: bool,
    /// per-operation creation counter (reset by `begin_op`)
    cur_sid: u32,
    cur_k: u16,
}

impl Model {
    pub fn new() -> Self {
        Model {
            nodes: BTreeMap::new(),
            roots: BTreeSet::new(),
            cons: true,
            cons_ever_off: false,
            cur_sid: 0,
            cur_k: 0,
        }
    }
    pub fn begin_op(&mut self, sid: u32) {
        self.cur_sid = sid;
        self.cur_k = 0;
    }
    pub fn fresh(&mut self) -> Lid {
        let l = (self.cur_sid, self.cur_k);
        self.cur_k += 1;
        l
    }
    pub fn n(&self, l: Lid) -> &MNode {
        &self.nodes[&l]
    }
    pub fn nm(&mut self, l: Lid) -> &mut MNode {
        self.nodes.get_mut(&l).unwrap()
    }
    pub fn exists_live(&self, l: Lid) -> bool {
        self.nodes.get(&l).map(|n| n.live).unwrap_or(false)
    }
    pub fn k(&self, l: Lid) -> K {
        self.n(l).kind.k()
    }
    pub fn is_text(&self, l: Lid) -> bool {
        self.n(l).kind.is_text()
    }
    pub fn live_lids(&self) -> Vec<Lid> {
        self.nodes.iter().filter(|(_, n)| n.live).map(|(l, _)| *l).collect()
    }
    pub fn live_count(&self) -> usize {
        self.nodes.values().filter(|n| n.live).count()
    }
    pub fn new_root(&mut self, kind: Kind) -> Lid {
        let l = self.fresh();
        self.insert_root(l, kind);
        l
    }
    pub fn insert_root(&mut self, l: Lid, kind: Kind) {
        self.nodes.insert(
            l,
            MNode { kind, parent: None, ns: vec![], attrs: vec![], kids: vec![], live: true },
        );
        self.roots.insert(l);
    }
    pub fn root_of(&self, mut l: Lid) -> Lid {
        let mut guard = 0;
        while let Some(p) = self.n(l).parent {
            l = p;
            guard += 1;
            assert!(guard < 100_000, "model cycle");
        }
        l
    }
    pub fn depth(&self, mut l: Lid) -> usize {
        let mut d = 0;
        while let Some(p) = self.n(l).parent {
            l = p;
            d += 1;
        }
        d
    }
    /// is `a` an ancestor of `n`, or `n` itself?
    pub fn is_ancestor_or_self(&self, a: Lid, n: Lid) -> bool {
        let mut cur = Some(n);
        while let Some(c) = cur {
            if c == a {
                return true;
            }
            cur = self.n(c).parent;
        }
        false
    }
    /// all nodes of the subtree in document order (node, ns, attrs, kids)
    pub fn subtree(&self, l: Lid) -> Vec<Lid> {
        let mut out = vec![];
        self.subtree_into(l, &mut out);
        out
    }
    fn subtree_into(&self, l: Lid, out: &mut Vec<Lid>) {
        out.push(l);
        let n = self.n(l);
        for c in n.ns.iter().chain(n.attrs.iter()).chain(n.kids.iter()) {
            self.subtree_into(*c, out);
        }
    }
    pub fn kid_index(&self, l: Lid) -> Option<(Lid, usize)> {
        let p = self.n(l).parent?;
        let i = self.n(p).kids.iter().position(|x| *x == l)?;
        Some((p, i))
    }
    pub fn prev_kid(&self, l: Lid) -> Option<Lid> {
        let (p, i) = self.kid_index(l)?;
        if i == 0 {
            None
        } else {
            Some(self.n(p).kids[i - 1])
        }
    }
    pub fn next_kid(&self, l: Lid) -> Option<Lid> {
        let (p, i) = self.kid_index(l)?;
        self.n(p).kids.get(i + 1).copied()
    }
    pub fn text_of(&self, l: Lid) -> &str {
        match &self.n(l).kind {
            Kind::Text(s) => s,
            _ => panic!("not text"),
        }
    }
    fn text_mut(&mut self, l: Lid) -> &mut String {
        match &mut self.nm(l).kind {
            Kind::Text(s) => s,
            _ => panic!("not text"),
        }
    }
    /// concatenated character data of descendants (string_value of Doc/Elem)
    pub fn string_value(&self, l: Lid) -> String {
        let mut s = String::new();
        self.sv_into(l, &mut s);
        s
    }
    fn sv_into(&self, l: Lid, s: &mut String) {
        let n = self.n(l);
        match &n.kind {
            Kind::Text(t) => s.push_str(t),
            Kind::Doc | Kind::Elem(_) => {
                for c in &n.kids {
                    self.sv_into(*c, s);
                }
            }
            _ => {}
        }
    }
    /// does the forest contain two adjacent text nodes anywhere?
    pub fn has_adjacent_text(&self) -> bool {
        for n in self.nodes.values() {
            if !n.live {
                continue;
            }
            for w in n.kids.windows(2) {
                if self.is_text(w[0]) && self.is_text(w[1]) {
                    return true;
                }
            }
        }
        false
    }
    /// C05's exact oracle applies when consolidation is off, or on with no
    /// adjacent text left over from an off period.
    pub fn exact_text_semantics(&self) -> bool {
        !self.cons || !self.cons_ever_off || !self.has_adjacent_text()
    }

    // ---------------------------------------------------------------- helpers

    /// unlink `c` from its parent (any of the three lists); becomes a root.
    /// Returns (old_prev, old_next) among ordinary children if it was one.
    fn unlink(&mut self, c: Lid) -> (Option<Lid>, Option<Lid>) {
        let p = match self.n(c).parent {
            Some(p) => p,
            None => return (None, None),
        };
        let mut res = (None, None);
        if let Some(i) = self.n(p).kids.iter().position(|x| *x == c) {
            let kids = &self.n(p).kids;
            res = (
                if i > 0 { Some(kids[i - 1]) } else { None },
                kids.get(i + 1).copied(),
            );
            self.nm(p).kids.remove(i);
        } else if let Some(i) = self.n(p).attrs.iter().position(|x| *x == c) {
            self.nm(p).attrs.remove(i);
        } else if let Some(i) = self.n(p).ns.iter().position(|x| *x == c) {
            self.nm(p).ns.remove(i);
        } else {
            panic!("model: child not in parent lists");
        }
        self.nm(c).parent = None;
        self.roots.insert(c);
        res
    }
    /// mark subtree dead and unlink it
    pub fn kill_subtree(&mut self, l: Lid) -> (Option<Lid>, Option<Lid>) {
        let res = self.unlink(l);
        self.roots.remove(&l);
        for x in self.subtree(l) {
            self.nm(x).live = false;
        }
        res
    }
    /// kill a single node that has no children (merged text, unwrapped element shell)
    fn kill_single(&mut self, l: Lid) {
        self.unlink(l);
        self.roots.remove(&l);
        self.nm(l).live = false;
    }
    /// if consolidation is on and both are text: b is merged into a, b dies.
    fn merge_if_text(&mut self, a: Option<Lid>, b: Option<Lid>) -> bool {
        if !self.cons {
            return false;
        }
        if let (Some(a), Some(b)) = (a, b) {
            if self.is_text(a) && self.is_text(b) {
                let t = self.text_of(b).to_string();
                self.text_mut(a).push_str(&t);
                self.kill_single(b);
                return true;
            }
        }
        false
    }
    /// structure check SC(parent, child)
    pub fn sc(&self, p: Lid, c: Lid) -> bool {
        matches!(self.k(p), K::Elem | K::Doc)
            && !matches!(self.k(c), K::Doc | K::Attr | K::Ns)
            && !self.is_ancestor_or_self(c, p)
    }
    /// put parentless `c` into kids(p) at index `idx`; with consolidation a
    /// text node merges into a text neighbour (previous preferred) and dies.
    fn place(&mut self, c: Lid, p: Lid, idx: usize) {
        debug_assert!(self.n(c).parent.is_none());
        if self.cons && self.is_text(c) {
            let prev = if idx > 0 { Some(self.n(p).kids[idx - 1]) } else { None };
            let next = self.n(p).kids.get(idx).copied();
            if let Some(pv) = prev {
                if self.is_text(pv) {
                    let t = self.text_of(c).to_string();
                    self.text_mut(pv).push_str(&t);
                    self.kill_single(c);
                    return;
                }
            }
            if let Some(nx) = next {
                if self.is_text(nx) {
                    let mut t = self.text_of(c).to_string();
                    t.push_str(self.text_of(nx));
                    *self.text_mut(nx) = t;
                    self.kill_single(c);
                    return;
                }
            }
        }
        self.nm(p).kids.insert(idx, c);
        self.nm(c).parent = Some(p);
        self.roots.remove(&c);
    }
    /// take `c` out of its old place with consolidation of the old neighbours.
    /// Returns the node that died through that merge, if any, and its survivor.
    fn take_out(&mut self, c: Lid) -> Option<(Lid, Lid)> {
        let was_kid = self.kid_index(c).is_some();
        let (pv, nx) = self.unlink(c);
        if was_kid && self.merge_if_text(pv, nx) {
            return Some((nx.unwrap(), pv.unwrap()));
        }
        None
    }

    // ---------------------------------------------------------------- moves

    pub fn append(&mut self, p: Lid, c: Lid) -> Pred {
        if !self.sc(p, c) {
            return Pred::Refuse;
        }
        if self.n(p).kids.last() == Some(&c) {
            return Pred::Done(None);
        }
        self.take_out(c);
        let idx = self.n(p).kids.len();
        self.place(c, p, idx);
        Pred::Done(None)
    }
    pub fn prepend(&mut self, p: Lid, c: Lid) -> Pred {
        if !self.sc(p, c) {
            return Pred::Refuse;
        }
        if self.n(p).kids.first() == Some(&c) {
            return Pred::Done(None);
        }
        self.take_out(c);
        self.place(c, p, 0);
        Pred::Done(None)
    }
    fn sibling_insert_ok(&self, r: Lid, c: Lid) -> Option<Lid> {
        let (p, _) = self.kid_index(r)?; // r must be an ordinary child of some parent
        if r == c || !self.sc(p, c) {
            return None;
        }
        Some(p)
    }
    pub fn insert_after(&mut self, r: Lid, c: Lid) -> Pred {
        let p = match self.sibling_insert_ok(r, c) {
            Some(p) => p,
            None => return Pred::Refuse,
        };
        self.insert_after_impl(p, r, c);
        Pred::Done(None)
    }
    /// returns the effective reference node (the survivor, if `r` was merged away)
    fn insert_after_impl(&mut self, p: Lid, r: Lid, c: Lid) -> Lid {
        if self.next_kid(r) == Some(c) {
            return r;
        }
        let mut r = r;
        if let Some((died, survivor)) = self.take_out(c) {
            if died == r {
                r = survivor;
            }
        }
        let idx = self.n(p).kids.iter().position(|x| *x == r).unwrap() + 1;
        self.place(c, p, idx);
        r
    }
    pub fn insert_before(&mut self, r: Lid, c: Lid) -> Pred {
        let p = match self.sibling_insert_ok(r, c) {
            Some(p) => p,
            None => return Pred::Refuse,
        };
        if self.prev_kid(r) == Some(c) {
            return Pred::Done(None);
        }
        let mut r = r;
        if let Some((died, survivor)) = self.take_out(c) {
            if died == r {
                r = survivor;
            }
        }
        let idx = self.n(p).kids.iter().position(|x| *x == r).unwrap();
        self.place(c, p, idx);
        Pred::Done(None)
    }
    pub fn detach(&mut self, n: Lid) -> Pred {
        self.take_out(n);
        Pred::Done(None)
    }
    pub fn remove(&mut self, n: Lid) -> Pred {
        let was_kid = self.kid_index(n).is_some();
        let (pv, nx) = self.kill_subtree(n);
        if was_kid {
            self.merge_if_text(pv, nx);
        }
        Pred::Done(None)
    }
    pub fn replace(&mut self, old: Lid, new: Lid) -> Pred {
        if self.k(old) == K::Doc {
            return Pred::Refuse;
        }
        let p = match self.n(old).parent {
            Some(p) => p,
            None => return Pred::Refuse,
        };
        if matches!(self.k(old), K::Attr | K::Ns) {
            return Pred::Unknown;
        }
        if new == old || self.is_ancestor_or_self(old, new) || !self.sc(p, new) {
            return Pred::Refuse;
        }
        let prev = self.prev_kid(old);
        self.kill_subtree(old);
        match prev {
            Some(pv) => {
                // if the replacing node is the previous sibling it is in place already
                let r = if pv == new { pv } else { self.insert_after_impl(p, pv, new) };
                // a text that filled the hole between two texts joins both
                let nx = self.next_kid(r);
                self.merge_if_text(Some(r), nx);
            }
            None => {
                self.prepend(p, new);
            }
        }
        Pred::Done(None)
    }
    pub fn wrap(&mut self, n: Lid, name: &Nm) -> Pred {
        if matches!(self.k(n), K::Doc | K::Attr | K::Ns) {
            return Pred::Refuse;
        }
        if let Some(p) = self.n(n).parent {
            if self.k(p) == K::Doc && self.k(n) != K::Elem {
                return Pred::Refuse;
            }
            let w = self.new_root(Kind::Elem(name.clone()));
            let idx = self.n(p).kids.iter().position(|x| *x == n).unwrap();
            self.nm(p).kids[idx] = w;
            self.nm(w).parent = Some(p);
            self.roots.remove(&w);
            self.nm(w).kids.push(n);
            self.nm(n).parent = Some(w);
            Pred::Done(Some(w))
        } else {
            let w = self.new_root(Kind::Elem(name.clone()));
            self.nm(w).kids.push(n);
            self.nm(n).parent = Some(w);
            self.roots.remove(&n);
            Pred::Done(Some(w))
        }
    }
    pub fn unwrap(&mut self, n: Lid) -> Pred {
        if self.k(n) != K::Elem {
            return Pred::Refuse;
        }
        let kids = self.n(n).kids.clone();
        if kids.is_empty() {
            return self.remove(n);
        }
        let specials: Vec<Lid> =
            self.n(n).ns.iter().chain(self.n(n).attrs.iter()).copied().collect();
        match self.n(n).parent {
            Some(p) => {
                let idx = self.n(p).kids.iter().position(|x| *x == n).unwrap();
                for s in specials {
                    self.kill_subtree(s);
                }
                // shell dies, children take its place
                self.nm(n).kids.clear();
                self.nm(p).kids.remove(idx);
                self.nm(n).parent = None;
                self.nm(n).live = false;
                for (i, c) in kids.iter().enumerate() {
                    self.nm(p).kids.insert(idx + i, *c);
                    self.nm(*c).parent = Some(p);
                }
                let first = kids[0];
                let last = *kids.last().unwrap();
                let prev = self.prev_kid(first);
                let next = self.next_kid(last);
                if self.merge_if_text(prev, Some(first)) {
                    if first == last {
                        self.merge_if_text(prev, next);
                    } else {
                        self.merge_if_text(Some(last), next);
                    }
                } else {
                    self.merge_if_text(Some(last), next);
                }
                Pred::Done(None)
            }
            None => {
                if kids.len() != 1 {
                    return Pred::Unknown;
                }
                for s in specials {
                    self.kill_subtree(s);
                }
                let c = kids[0];
                self.nm(n).kids.clear();
                self.nm(n).live = false;
                self.roots.remove(&n);
                self.nm(c).parent = None;
                self.roots.insert(c);
                Pred::Done(None)
            }
        }
    }
    /// deep copy made of fresh nodes; adjacent text merged when consolidation is on
    pub fn clone_node(&mut self, n: Lid) -> Pred {
        let r = self.copy_rec(n, None);
        Pred::Done(Some(r))
    }
    fn copy_rec(&mut self, n: Lid, parent: Option<Lid>) -> Lid {
        let src = self.n(n).clone();
        let l = self.fresh();
        self.nodes.insert(
            l,
            MNode { kind: src.kind.clone(), parent, ns: vec![], attrs: vec![], kids: vec![], live: true },
        );
        if parent.is_none() {
            self.roots.insert(l);
        }
        for c in &src.ns {
            // node-style append keeps unique keys: a later duplicate updates the earlier one
            let c2 = self.copy_rec(*c, Some(l));
            self.nm(l).ns.push(c2);
        }
        for c in &src.attrs {
            let c2 = self.copy_rec(*c, Some(l));
            self.nm(l).attrs.push(c2);
        }
        for c in &src.kids {
            if self.cons && self.is_text(*c) {
                if let Some(last) = self.n(l).kids.last().copied() {
                    if self.is_text(last) {
                        let t = self.text_of(*c).to_string();
                        self.text_mut(last).push_str(&t);
                        continue;
                    }
                }
            }
            let c2 = self.copy_rec(*c, Some(l));
            self.nm(l).kids.push(c2);
        }
        l
    }

    // ---------------------------------------------------------------- maps

    fn map_list(&self, e: Lid, attr: bool) -> &Vec<Lid> {
        if attr {
            &self.n(e).attrs
        } else {
            &self.n(e).ns
        }
    }
    pub fn find_attr(&self, e: Lid, name: &Nm) -> Option<Lid> {
        self.n(e).attrs.iter().copied().find(|a| matches!(&self.n(*a).kind, Kind::Attr(n, _) if n == name))
    }
    pub fn find_ns(&self, e: Lid, prefix: &str) -> Option<Lid> {
        self.n(e).ns.iter().copied().find(|a| matches!(&self.n(*a).kind, Kind::Ns(p, _) if p == prefix))
    }
    /// node-style append of an attribute or namespace node
    pub fn append_special(&mut self, p: Lid, c: Lid, attr: bool) -> Pred {
        if self.k(p) != K::Elem {
            return Pred::Refuse;
        }
        if attr && self.k(c) != K::Attr || !attr && self.k(c) != K::Ns {
            return Pred::Refuse;
        }
        let existing = match &self.n(c).kind {
            Kind::Attr(n, _) => self.find_attr(p, &n.clone()),
            Kind::Ns(pf, _) => self.find_ns(p, &pf.clone()),
            _ => unreachable!(),
        };
        if let Some(ex) = existing {
            if ex != c {
                let newkind = match (&self.n(ex).kind, &self.n(c).kind) {
                    (Kind::Attr(n, _), Kind::Attr(_, v)) => Kind::Attr(n.clone(), v.clone()),
                    (Kind::Ns(pf, _), Kind::Ns(_, u)) => Kind::Ns(pf.clone(), u.clone()),
                    _ => unreachable!(),
                };
                self.nm(ex).kind = newkind;
            }
            return Pred::Done(Some(ex));
        }
        self.unlink(c);
        if attr {
            self.nm(p).attrs.push(c);
        } else {
            self.nm(p).ns.push(c);
        }
        self.nm(c).parent = Some(p);
        self.roots.remove(&c);
        Pred::Done(Some(c))
    }
    pub fn attr_insert(&mut self, e: Lid, name: &Nm, value: &str) -> Pred {
        if let Some(a) = self.find_attr(e, name) {
            self.nm(a).kind = Kind::Attr(name.clone(), value.to_string());
            return Pred::Done(Some(a));
        }
        let l = self.fresh();
        self.nodes.insert(
            l,
            MNode {
                kind: Kind::Attr(name.clone(), value.to_string()),
                parent: Some(e),
                ns: vec![],
                attrs: vec![],
                kids: vec![],
                live: true,
            },
        );
        self.nm(e).attrs.push(l);
        Pred::Done(Some(l))
    }
    pub fn ns_insert(&mut self, e: Lid, prefix: &str, uri: &str) -> Pred {
        if let Some(a) = self.find_ns(e, prefix) {
            self.nm(a).kind = Kind::Ns(prefix.to_string(), uri.to_string());
            return Pred::Done(Some(a));
        }
        let l = self.fresh();
        self.nodes.insert(
            l,
            MNode {
                kind: Kind::Ns(prefix.to_string(), uri.to_string()),
                parent: Some(e),
                ns: vec![],
                attrs: vec![],
                kids: vec![],
                live: true,
            },
        );
        self.nm(e).ns.push(l);
        Pred::Done(Some(l))
    }
    pub fn map_remove(&mut self, e: Lid, key: &MapKey) -> Pred {
        let f = match key {
            MapKey::Attr(n) => self.find_attr(e, n),
            MapKey::Ns(p) => self.find_ns(e, p),
        };
        if let Some(a) = f {
            self.kill_subtree(a);
        }
        Pred::Done(None)
    }
    pub fn map_clear(&mut self, e: Lid, attr: bool) -> Pred {
        for a in self.map_list(e, attr).clone() {
            self.kill_subtree(a);
        }
        Pred::Done(None)
    }

    // ---------------------------------------------------------------- values

    pub fn text_content_set(&mut self, n: Lid, s: &str) -> Pred {
        let kids = self.n(n).kids.clone();
        if kids.is_empty() {
            if self.k(n) == K::Elem {
                let l = self.fresh();
                self.nodes.insert(
                    l,
                    MNode {
                        kind: Kind::Text(s.to_string()),
                        parent: Some(n),
                        ns: vec![],
                        attrs: vec![],
                        kids: vec![],
                        live: true,
                    },
                );
                self.nm(n).kids.push(l);
            }
        } else if kids.len() == 1 && self.is_text(kids[0]) {
            *self.text_mut(kids[0]) = s.to_string();
        }
        Pred::Done(None)
    }
    pub fn set_cons(&mut self, on: bool) {
        self.cons = on;
        if !on {
            self.cons_ever_off = true;
        }
    }

    // ---------------------------------------------------------------- canonical form

    /// canonical text of one tree (used for state hashing and diagnostics)
    pub fn canon(&self, l: Lid) -> String {
        let mut s = String::new();
        self.canon_into(l, &mut s);
        s
    }
    fn canon_into(&self, l: Lid, s: &mut String) {
        let n = self.n(l);
        match &n.kind {
            Kind::Doc => s.push_str("D("),
            Kind::Elem(nm) => {
                s.push_str("E{");
                s.push_str(&nm.uri);
                s.push('}');
                s.push_str(&nm.local);
                s.push('(');
            }
            Kind::Text(t) => {
                s.push_str(&format!("T{:?}", t));
                return;
            }
            Kind::Comment(t) => {
                s.push_str(&format!("C{:?}", t));
                return;
            }
            Kind::PI(t, d) => {
                s.push_str(&format!("P{{{}}}{}:{:?}", t.uri, t.local, d));
                return;
            }
            Kind::Attr(nm, v) => {
                s.push_str(&format!("@{{{}}}{}={:?}", nm.uri, nm.local, v));
                return;
            }
            Kind::Ns(p, u) => {
                s.push_str(&format!("#{}={:?}", p, u));
                return;
            }
        }
        for c in n.ns.iter().chain(n.attrs.iter()).chain(n.kids.iter()) {
            self.canon_into(*c, s);
            s.push(',');
        }
        s.push(')');
    }
    pub fn canon_forest(&self) -> String {
        let mut s = String::new();
        for r in &self.roots {
            self.canon_into(*r, &mut s);
            s.push(';');
        }
        s.push_str(if self.cons { "+" } else { "-" });
        s
    }
}

#[derive(Clone, Debug, PartialEq, Eq, Serialize, Deserialize)]
pub enum MapKey {
    Attr(Nm),
    Ns(String),
}
