//! Abstract documents: generator, text renderer, conversion to the model.
//! Shared by the forest simulation (initial trees, parse operations), C03
//! (documents at rest that get damaged), C10, C16 and C20.

use crate::model::{Kind, Lid, MNode, Model, Nm};
use crate::rng::Rng;
use serde::{Deserialize, Serialize};

pub const LOCALS: [&str; 9] = ["a", "b", "c", "d", "e", "f", "A", "id", "\u{e9}l"];
pub const URIS: [&str; 4] = ["urn:x", "urn:y", "urn:z", "urn:w?a=1&b=\"2\""];
pub const PREFIXES: [&str; 3] = ["p", "q", "r"];
pub const TEXTS: [&str; 19] = ["a\u{85}b\u{2028}c", "\u{c3}\u{a9} 1\u{c2}\u{bd}", "a]]]>b", "t", "x y", " ", "hello", "<&>", "é", "a]]>b", "  \n ", "1", "\"q'", "zz", "\u{1F600}", "a\rb", "]]", ">", "a long run of character data, long enough to cross the small-string and buffer sizes that short samples never reach; 0123456789 0123456789 0123456789 0123456789 0123456789 0123456789 <&> \u{1F600} end"];
pub const ATTR_VALUES: [&str; 14] = ["v", "", "x y", "<&\">", "é", "w'w", "1", "long value here", " a1 ", "first  second", "a\tb", "l1\nl2", "cr\rx", "n\u{85}l\u{2028}s"];
pub const COMMENTS: [&str; 6] = ["c", " note ", "", "a-b", "<x>", "\u{e9} \u{1F600}"];
pub const XML_NS: &str = "http://www.w3.org/XML/1998/namespace";
pub const PI_TARGETS: [&str; 4] = ["pi", "target", "x-y", "\u{3c0}"];
pub const PI_DATA: [&str; 4] = ["d", "a b", "x=\"1\"", "?"];
/// data of the processing instructions of abstract documents: also data that ends in white space (which is
/// part of the data — only the separator after the target is not)
pub const PI_DATA_DOC: [&str; 8] = ["d", "a b", "x=\"1\"", "?", "a ", "a\t", "b  \n", "c ? >"];

#[derive(Clone, Debug, PartialEq, Eq, Serialize, Deserialize)]
pub enum AContent {
    Elem(AElem),
    Text(String),
    Comment(String),
    PI(String, Option<String>),
}

#[derive(Clone, Debug, PartialEq, Eq, Serialize, Deserialize)]
pub struct AElem {
    pub name: Nm,
    /// prefix used when rendering the element name ("" = unprefixed)
    pub prefix: String,
    pub decls: Vec<(String, String)>,
    /// (name, prefix used when rendering, value)
    pub attrs: Vec<(Nm, String, String)>,
    pub kids: Vec<AContent>,
}

#[derive(Clone, Debug, PartialEq, Eq, Serialize, Deserialize)]
pub struct ADoc {
    pub before: Vec<AContent>,
    pub root: AElem,
    pub after: Vec<AContent>,
}

#[derive(Clone, Debug)]
pub struct GenCfg {
    pub max_depth: usize,
    pub max_kids: usize,
    pub ns_pct: u32,
    pub attr_max: usize,
    pub misc_pct: u32,
    pub text_pct: u32,
    pub xml_id_pct: u32,
    /// share of elements that explicitly declare the built-in pair xmlns:xml="…/XML/1998/namespace"
    /// (legal, never written on output, so only engines that allow for that switch it on)
    pub xml_prefix_decl_pct: u32,
    /// share of elements with 9-12 further declarations (prefixes d0..d11 in a shuffled order)
    pub many_decls_pct: u32,
    /// two namespaces, two prefixes, two local names: the same names recur, prefixes are re-bound
    /// and aliased, the default namespace is declared and undeclared all the time
    pub small_pools: bool,
}
impl GenCfg {
    pub fn small() -> Self {
        GenCfg { max_depth: 3, max_kids: 3, ns_pct: 35, attr_max: 2, misc_pct: 20, text_pct: 35, xml_id_pct: 10, xml_prefix_decl_pct: 0, many_decls_pct: 0, small_pools: false }
    }
    pub fn swarm(rng: &mut Rng) -> Self {
        GenCfg {
            max_depth: rng.range(1, 4),
            max_kids: rng.range(1, 4),
            ns_pct: *rng.pick(&[0, 20, 50, 80]),
            attr_max: rng.range(0, 3),
            misc_pct: *rng.pick(&[0, 15, 40]),
            text_pct: *rng.pick(&[10, 35, 60]),
            xml_id_pct: *rng.pick(&[0, 10, 30]),
            xml_prefix_decl_pct: 0,
            many_decls_pct: *rng.pick(&[0u32, 0, 0, 3, 10]),
            small_pools: rng.pct(25),
        }
    }
}

type Scope = Vec<(String, String)>;

fn lookup<'a>(scope: &'a Scope, prefix: &str) -> Option<&'a str> {
    scope.iter().rev().find(|(p, _)| p == prefix).map(|(_, u)| u.as_str())
}

/// prefixes in scope currently bound to `uri` (not shadowed)
fn prefixes_for(scope: &Scope, uri: &str, allow_default: bool) -> Vec<String> {
    let mut out: Vec<String> = vec![];
    let mut seen: Vec<&str> = vec![];
    for (p, u) in scope.iter().rev() {
        if seen.contains(&p.as_str()) {
            continue;
        }
        seen.push(p);
        if u == uri && (allow_default || !p.is_empty()) && !u.is_empty() {
            out.push(p.clone());
        }
    }
    out
}

pub fn gen_doc(rng: &mut Rng, cfg: &GenCfg) -> ADoc {
    let mut ids = 0u32;
    let mut before = vec![];
    let mut after = vec![];
    if rng.pct(cfg.misc_pct) {
        for _ in 0..rng.range(1, 4) {
            before.push(gen_misc(rng));
        }
    }
    if rng.pct(cfg.misc_pct) {
        for _ in 0..rng.range(1, 4) {
            after.push(gen_misc(rng));
        }
    }
    let root = gen_elem(rng, cfg, &vec![], 0, &mut ids);
    ADoc { before, root, after }
}

fn gen_misc(rng: &mut Rng) -> AContent {
    if rng.pct(50) {
        AContent::Comment(rng.pick(&COMMENTS).to_string())
    } else {
        AContent::PI(
            rng.pick(&PI_TARGETS).to_string(),
            if rng.pct(60) { Some(rng.pick(&PI_DATA_DOC).to_string()) } else { None },
        )
    }
}

pub fn gen_elem(rng: &mut Rng, cfg: &GenCfg, scope: &Scope, depth: usize, ids: &mut u32) -> AElem {
    let mut scope = scope.clone();
    let mut decls: Vec<(String, String)> = vec![];
    let (uris, prefixes, locals): (&[&'static str], &[&'static str], &[&'static str]) =
        if cfg.small_pools { (&URIS[..2], &PREFIXES[..2], &LOCALS[..2]) } else { (&URIS[..], &PREFIXES[..], &LOCALS[..]) };
    let ns_pct = if cfg.small_pools { cfg.ns_pct.max(60) } else { cfg.ns_pct };
    if rng.pct(ns_pct) {
        for _ in 0..rng.range(1, 2) {
            let prefix = if rng.pct(30) { "".to_string() } else { rng.pick_str(prefixes).to_string() };
            if decls.iter().any(|(p, _)| *p == prefix) {
                continue;
            }
            let uri = if cfg.small_pools && prefix.is_empty() && rng.pct(30) { String::new() } else { rng.pick_str(uris).to_string() };
            decls.push((prefix.clone(), uri.clone()));
            scope.push((prefix, uri));
        }
    }
    if cfg.many_decls_pct > 0 && rng.pct(cfg.many_decls_pct) {
        let wide = rng.pct(35);
        let mut idx: Vec<usize> = (0..if wide { 24 } else { 12 }).collect();
        for i in (1..idx.len()).rev() {
            let j = rng.below(i + 1);
            idx.swap(i, j);
        }
        for i in idx.into_iter().take(if wide { rng.range(17, 22) } else { rng.range(9, 12) }) {
            let prefix = format!("d{}", i);
            let uri = if rng.pct(50) { rng.pick(&URIS).to_string() } else { format!("urn:d{}", i) };
            decls.push((prefix.clone(), uri.clone()));
            scope.push((prefix, uri));
        }
    }
    if cfg.xml_prefix_decl_pct > 0 && rng.pct(cfg.xml_prefix_decl_pct) {
        decls.push(("xml".to_string(), XML_NS.to_string()));
    }
    // element name
    let mut uri = "".to_string();
    let mut prefix = "".to_string();
    if rng.pct(ns_pct + 10) {
        // pick a namespace that has a usable binding
        let mut cands: Vec<(String, String)> = vec![];
        for u in uris.iter() {
            for p in prefixes_for(&scope, u, true) {
                cands.push((u.to_string(), p));
            }
        }
        if let Some((u, p)) = rng.pick_opt(&cands) {
            uri = u.clone();
            prefix = p.clone();
        }
    }
    if uri.is_empty() {
        // a no-namespace element must not sit in a default-namespace scope
        if let Some(d) = lookup(&scope, "") {
            if !d.is_empty() {
                if let Some(pos) = decls.iter().position(|(p, _)| p.is_empty()) {
                    decls.remove(pos);
                    // drop our own default declaration and re-evaluate
                    scope.retain(|_| true);
                    let idx = scope.iter().rposition(|(p, _)| p.is_empty()).unwrap();
                    scope.remove(idx);
                }
                if let Some(d2) = lookup(&scope, "") {
                    if !d2.is_empty() {
                        decls.push(("".to_string(), "".to_string()));
                        scope.push(("".to_string(), "".to_string()));
                    }
                }
            }
        }
    }
    let name = Nm { local: rng.pick_str(locals).to_string(), uri };
    // attributes
    let mut attrs: Vec<(Nm, String, String)> = vec![];
    let nattrs = rng.range(0, cfg.attr_max);
    for _ in 0..nattrs {
        let mut auri = "".to_string();
        let mut apfx = "".to_string();
        if rng.pct(ns_pct) {
            let mut cands: Vec<(String, String)> = vec![];
            for u in uris.iter() {
                for p in prefixes_for(&scope, u, false) {
                    cands.push((u.to_string(), p));
                }
            }
            if let Some((u, p)) = rng.pick_opt(&cands) {
                auri = u.clone();
                apfx = p.clone();
            }
        }
        // (an attribute called xmlns in a namespace - written p:xmlns - is an ordinary attribute)
        let alocal = if !auri.is_empty() && rng.pct(4) { "xmlns".to_string() } else { rng.pick_str(locals).to_string() };
        let an = Nm { local: alocal, uri: auri };
        if attrs.iter().any(|(n, _, _)| *n == an) {
            continue;
        }
        attrs.push((an, apfx, rng.pick(&ATTR_VALUES).to_string()));
    }
    if rng.pct(cfg.xml_id_pct) {
        *ids += 1;
        attrs.push((
            Nm { local: "id".into(), uri: "http://www.w3.org/XML/1998/namespace".into() },
            "xml".into(),
            format!("id{}", ids),
        ));
    }
    if rng.pct(cfg.xml_id_pct / 3 + 3) {
        attrs.push((
            Nm { local: "space".into(), uri: "http://www.w3.org/XML/1998/namespace".into() },
            "xml".into(),
            rng.pick_str(&["preserve", "preserve", "default"]).to_string(),
        ));
    }
    // children
    let mut kids: Vec<AContent> = vec![];
    if depth < cfg.max_depth {
        let nk = rng.range(0, cfg.max_kids);
        for _ in 0..nk {
            let last_text = matches!(kids.last(), Some(AContent::Text(_)));
            let r = rng.below(100) as u32;
            if r < cfg.text_pct && !last_text {
                kids.push(AContent::Text(rng.pick(&TEXTS).to_string()));
            } else if r < cfg.text_pct + cfg.misc_pct / 2 {
                kids.push(gen_misc(rng));
            } else {
                kids.push(AContent::Elem(gen_elem(rng, cfg, &scope, depth + 1, ids)));
            }
        }
    }
    AElem { name, prefix, decls, attrs, kids }
}

pub fn esc_text(s: &str, out: &mut String) {
    for c in s.chars() {
        match c {
            '&' => out.push_str("&amp;"),
            '<' => out.push_str("&lt;"),
            '>' => out.push_str("&gt;"),
            '\r' => out.push_str("&#13;"),
            _ => out.push(c),
        }
    }
}
pub fn esc_attr(s: &str, out: &mut String) {
    for c in s.chars() {
        match c {
            '&' => out.push_str("&amp;"),
            '<' => out.push_str("&lt;"),
            '"' => out.push_str("&quot;"),
            '\n' => out.push_str("&#10;"),
            '\t' => out.push_str("&#9;"),
            '\r' => out.push_str("&#13;"),
            _ => out.push(c),
        }
    }
}

fn qname(prefix: &str, local: &str) -> String {
    if prefix.is_empty() {
        local.to_string()
    } else {
        format!("{}:{}", prefix, local)
    }
}

pub fn render_content(c: &AContent, out: &mut String, cdata: &mut dyn FnMut() -> bool) {
    match c {
        AContent::Elem(e) => render_elem(e, out, cdata),
        AContent::Text(t) => {
            if !t.contains("]]>") && !t.contains('\r') && cdata() {
                // one text node, written as character data next to a CDATA section, as two CDATA
                // sections in a row (the parser has to consolidate the pieces), or as one section
                let chars: Vec<char> = t.chars().collect();
                if chars.len() >= 2 && cdata() {
                    let mid = chars.len() / 2;
                    let (a, b): (String, String) = (chars[..mid].iter().collect(), chars[mid..].iter().collect());
                    if !a.ends_with(']') {
                        if cdata() {
                            out.push_str("<![CDATA[");
                            out.push_str(&a);
                            out.push_str("]]>");
                        } else {
                            esc_text(&a, out);
                        }
                        out.push_str("<![CDATA[");
                        out.push_str(&b);
                        out.push_str("]]>");
                        return;
                    }
                }
                out.push_str("<![CDATA[");
                out.push_str(t);
                out.push_str("]]>");
            } else if t.contains('\n') && cdata() {
                // the same text in a file with CR LF (or lone CR) line ends: the parser has to
                // normalise the literal line ends to LF
                let mut piece = String::new();
                esc_text(t, &mut piece);
                out.push_str(&piece.replace('\n', if cdata() { "\r" } else { "\r\n" }));
            } else {
                esc_text(t, out);
            }
        }
        AContent::Comment(s) => {
            out.push_str("<!--");
            out.push_str(s);
            out.push_str("-->");
        }
        AContent::PI(t, d) => {
            out.push_str("<?");
            out.push_str(t);
            if let Some(d) = d {
                out.push(' ');
                out.push_str(d);
            }
            out.push_str("?>");
        }
    }
}

pub fn render_elem(e: &AElem, out: &mut String, cdata: &mut dyn FnMut() -> bool) {
    let q = qname(&e.prefix, &e.name.local);
    out.push('<');
    out.push_str(&q);
    // declarations and attributes of one start tag may be written in any relative order: normally
    // declarations first, sometimes interleaved (an attribute written before the declaration
    // that binds its prefix); the order within each of the two kinds is kept
    let interleave = !e.decls.is_empty() && !e.attrs.is_empty() && cdata();
    let (mut di, mut ai) = (0usize, 0usize);
    while di < e.decls.len() || ai < e.attrs.len() {
        let take_attr = if di == e.decls.len() {
            true
        } else if ai == e.attrs.len() {
            false
        } else {
            interleave && (ai == 0 && di == 0 || cdata())
        };
        if take_attr {
            let (n, p, v) = &e.attrs[ai];
            ai += 1;
            out.push(' ');
            out.push_str(&qname(p, &n.local));
            out.push_str("=\"");
            esc_attr(v, out);
            out.push('"');
        } else {
            let (p, u) = &e.decls[di];
            di += 1;
            if p.is_empty() {
                out.push_str(" xmlns=\"");
            } else {
                out.push_str(" xmlns:");
                out.push_str(p);
                out.push_str("=\"");
            }
            esc_attr(u, out);
            out.push('"');
        }
    }
    if e.kids.is_empty() {
        out.push_str("/>");
        return;
    }
    out.push('>');
    for k in &e.kids {
        render_content(k, out, cdata);
    }
    out.push_str("</");
    out.push_str(&q);
    out.push('>');
}

pub fn render_doc(d: &ADoc, decl: bool, cdata: &mut dyn FnMut() -> bool) -> String {
    let mut out = String::new();
    if decl {
        out.push_str("<?xml version=\"1.0\" encoding=\"UTF-8\"?>");
    }
    for c in &d.before {
        render_content(c, &mut out, cdata);
    }
    render_elem(&d.root, &mut out, cdata);
    for c in &d.after {
        render_content(c, &mut out, cdata);
    }
    out
}

/// Insert an abstract element into the model under `parent` (None = new root).
pub fn model_elem(m: &mut Model, e: &AElem, parent: Option<Lid>) -> Lid {
    let l = m.fresh();
    m.nodes.insert(
        l,
        MNode { kind: Kind::Elem(e.name.clone()), parent, ns: vec![], attrs: vec![], kids: vec![], live: true },
    );
    if parent.is_none() {
        m.roots.insert(l);
    }
    for (p, u) in &e.decls {
        let c = m.fresh();
        m.nodes.insert(
            c,
            MNode { kind: Kind::Ns(p.clone(), u.clone()), parent: Some(l), ns: vec![], attrs: vec![], kids: vec![], live: true },
        );
        m.nm(l).ns.push(c);
    }
    for (n, _, v) in &e.attrs {
        let c = m.fresh();
        m.nodes.insert(
            c,
            MNode { kind: Kind::Attr(n.clone(), v.clone()), parent: Some(l), ns: vec![], attrs: vec![], kids: vec![], live: true },
        );
        m.nm(l).attrs.push(c);
    }
    for k in &e.kids {
        let c = model_content(m, k, Some(l));
        m.nm(l).kids.push(c);
    }
    l
}

pub fn model_content(m: &mut Model, c: &AContent, parent: Option<Lid>) -> Lid {
    match c {
        AContent::Elem(e) => model_elem(m, e, parent),
        other => {
            let kind = match other {
                AContent::Text(t) => Kind::Text(t.clone()),
                AContent::Comment(t) => Kind::Comment(t.clone()),
                AContent::PI(t, d) => Kind::PI(Nm::new(t, ""), d.clone()),
                AContent::Elem(_) => unreachable!(),
            };
            let l = m.fresh();
            m.nodes.insert(l, MNode { kind, parent, ns: vec![], attrs: vec![], kids: vec![], live: true });
            if parent.is_none() {
                m.roots.insert(l);
            }
            l
        }
    }
}

pub fn model_doc(m: &mut Model, d: &ADoc) -> Lid {
    let l = m.fresh();
    m.nodes.insert(l, MNode { kind: Kind::Doc, parent: None, ns: vec![], attrs: vec![], kids: vec![], live: true });
    m.roots.insert(l);
    for c in &d.before {
        let k = model_content(m, c, Some(l));
        m.nm(l).kids.push(k);
    }
    let r = model_elem(m, &d.root, Some(l));
    m.nm(l).kids.push(r);
    for c in &d.after {
        let k = model_content(m, c, Some(l));
        m.nm(l).kids.push(k);
    }
    l
}

/// number of nodes of an abstract element (incl. attributes and declarations)
pub fn count_elem(e: &AElem) -> usize {
    1 + e.decls.len()
        + e.attrs.len()
        + e.kids
            .iter()
            .map(|k| match k {
                AContent::Elem(e) => count_elem(e),
                _ => 1,
            })
            .sum::<usize>()
}

/// one-step simplifications of a document (for minimisation)
pub fn shrink_candidates(d: &ADoc) -> Vec<ADoc> {
    let mut out = vec![];
    for i in 0..d.before.len() {
        let mut c = d.clone();
        c.before.remove(i);
        out.push(c);
    }
    for i in 0..d.after.len() {
        let mut c = d.clone();
        c.after.remove(i);
        out.push(c);
    }
    fn elem_variants(e: &AElem) -> Vec<AElem> {
        let mut out = vec![];
        for i in 0..e.kids.len() {
            let mut c = e.clone();
            c.kids.remove(i);
            // never create adjacent text
            let adj = c.kids.windows(2).any(|w| matches!((&w[0], &w[1]), (AContent::Text(_), AContent::Text(_))));
            if !adj {
                out.push(c);
            }
        }
        for i in 0..e.attrs.len() {
            let mut c = e.clone();
            c.attrs.remove(i);
            out.push(c);
        }
        for (i, k) in e.kids.iter().enumerate() {
            if let AContent::Elem(ch) = k {
                for var in elem_variants(ch) {
                    let mut c = e.clone();
                    c.kids[i] = AContent::Elem(var);
                    out.push(c);
                }
            }
        }
        out
    }
    for var in elem_variants(&d.root) {
        let mut c = d.clone();
        c.root = var;
        out.push(c);
    }
    out
}


// ------------------------------------------------------------------ conversion to xot::fixed

pub fn fx_name(n: &Nm) -> xot::fixed::Name {
    xot::fixed::Name { namespace: n.uri.clone(), localname: n.local.clone() }
}
/// `split`: asked per text node; `true` = write it as two adjacent `Content::Text` entries (the
/// store has to consolidate them, as it does for pieces that are appended one by one)
pub fn fx_elem(e: &AElem, split: &mut dyn FnMut() -> bool) -> xot::fixed::Element {
    let mut children = vec![];
    for k in &e.kids {
        match k {
            AContent::Elem(e) => children.push(xot::fixed::Content::Element(fx_elem(e, split))),
            AContent::Text(t) => {
                let chars: Vec<char> = t.chars().collect();
                if chars.len() >= 2 && split() {
                    let mid = chars.len() / 2;
                    children.push(xot::fixed::Content::Text(chars[..mid].iter().collect()));
                    children.push(xot::fixed::Content::Text(chars[mid..].iter().collect()));
                } else {
                    children.push(xot::fixed::Content::Text(t.clone()));
                }
            }
            AContent::Comment(t) => children.push(xot::fixed::Content::Comment(t.clone())),
            AContent::PI(t, d) => children.push(xot::fixed::Content::ProcessingInstruction(xot::fixed::ProcessingInstruction {
                target: t.clone(),
                content: d.clone(),
            })),
        }
    }
    xot::fixed::Element {
        name: fx_name(&e.name),
        prefixes: e.decls.iter().map(|(p, u)| xot::fixed::Prefix { name: p.clone(), namespace: u.clone() }).collect(),
        attributes: e.attrs.iter().map(|(n, _, val)| (fx_name(n), val.clone())).collect(),
        children,
    }
}
pub fn fx_misc(c: &AContent) -> xot::fixed::DocumentContent {
    match c {
        AContent::Comment(t) => xot::fixed::DocumentContent::Comment(t.clone()),
        AContent::PI(t, d) => xot::fixed::DocumentContent::ProcessingInstruction(xot::fixed::ProcessingInstruction {
            target: t.clone(),
            content: d.clone(),
        }),
        _ => unreachable!(),
    }
}
pub fn fx_doc(d: &ADoc, split: &mut dyn FnMut() -> bool) -> xot::fixed::Document {
    xot::fixed::Document {
        before: d.before.iter().map(fx_misc).collect(),
        document_element: fx_elem(&d.root, split),
        after: d.after.iter().map(fx_misc).collect(),
    }
}

