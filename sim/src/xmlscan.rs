//! A small independent scanner for xot's *own* output format (not a general
//! XML parser): start tags with double-quoted attributes, end tags, empty
//! tags, comments, PIs, CDATA sections, text with the five predefined
//! entities and numeric character references. Used by C10 (independent
//! namespace resolution of emitted names), C11 (declaration/attribute order)
//! and C20.

#[derive(Clone, Debug, PartialEq, Eq)]
pub enum Ev {
    Start { name: String, attrs: Vec<(String, String)>, empty: bool },
    End { name: String },
    Text(String),
    Comment(String),
    PI(String, Option<String>),
    Decl(String),
    Doctype(String),
}

pub fn unescape(s: &str) -> Result<String, String> {
    let mut out = String::with_capacity(s.len());
    let mut rest = s;
    while let Some(i) = rest.find('&') {
        out.push_str(&rest[..i]);
        let r = &rest[i + 1..];
        let j = r.find(';').ok_or_else(|| "unterminated reference".to_string())?;
        let ent = &r[..j];
        match ent {
            "amp" => out.push('&'),
            "lt" => out.push('<'),
            "gt" => out.push('>'),
            "quot" => out.push('"'),
            "apos" => out.push('\''),
            _ => {
                let cp = if let Some(h) = ent.strip_prefix("#x") {
                    u32::from_str_radix(h, 16).map_err(|e| e.to_string())?
                } else if let Some(d) = ent.strip_prefix('#') {
                    d.parse::<u32>().map_err(|e| e.to_string())?
                } else {
                    return Err(format!("unknown entity {}", ent));
                };
                out.push(char::from_u32(cp).ok_or_else(|| "bad code point".to_string())?);
            }
        }
        rest = &r[j + 1..];
    }
    out.push_str(rest);
    Ok(out)
}

pub fn scan(s: &str) -> Result<Vec<Ev>, String> {
    let b = s.as_bytes();
    let mut i = 0usize;
    let mut out = vec![];
    let mut text = String::new();
    let flush = |text: &mut String, out: &mut Vec<Ev>| {
        if !text.is_empty() {
            out.push(Ev::Text(std::mem::take(text)));
        }
    };
    while i < b.len() {
        if b[i] != b'<' {
            let j = s[i..].find('<').map(|x| i + x).unwrap_or(b.len());
            text.push_str(&unescape(&s[i..j])?);
            i = j;
            continue;
        }
        if s[i..].starts_with("<![CDATA[") {
            let j = s[i + 9..].find("]]>").ok_or("unterminated CDATA")? + i + 9;
            text.push_str(&s[i + 9..j]);
            i = j + 3;
            continue;
        }
        flush(&mut text, &mut out);
        if s[i..].starts_with("<!--") {
            let j = s[i + 4..].find("-->").ok_or("unterminated comment")? + i + 4;
            out.push(Ev::Comment(s[i + 4..j].to_string()));
            i = j + 3;
        } else if s[i..].starts_with("<?") {
            let j = s[i + 2..].find("?>").ok_or("unterminated PI")? + i + 2;
            let body = &s[i + 2..j];
            if body.starts_with("xml ") || body == "xml" {
                out.push(Ev::Decl(body.to_string()));
            } else {
                match body.find(|c: char| c.is_whitespace()) {
                    Some(k) => out.push(Ev::PI(body[..k].to_string(), Some(body[k + 1..].to_string()))),
                    None => out.push(Ev::PI(body.to_string(), None)),
                }
            }
            i = j + 2;
        } else if s[i..].starts_with("<!DOCTYPE") {
            let j = s[i..].find('>').ok_or("unterminated doctype")? + i;
            out.push(Ev::Doctype(s[i..=j].to_string()));
            i = j + 1;
        } else if s[i..].starts_with("</") {
            let j = s[i..].find('>').ok_or("unterminated end tag")? + i;
            out.push(Ev::End { name: s[i + 2..j].trim().to_string() });
            i = j + 1;
        } else {
            // start tag
            let mut j = i + 1;
            while j < b.len() && !b[j].is_ascii_whitespace() && b[j] != b'>' && b[j] != b'/' {
                j += 1;
            }
            let name = s[i + 1..j].to_string();
            if name.is_empty() {
                return Err("empty tag name".into());
            }
            let mut attrs = vec![];
            let mut empty = false;
            loop {
                while j < b.len() && b[j].is_ascii_whitespace() {
                    j += 1;
                }
                if j >= b.len() {
                    return Err("unterminated start tag".into());
                }
                if b[j] == b'>' {
                    j += 1;
                    break;
                }
                if b[j] == b'/' {
                    if j + 1 < b.len() && b[j + 1] == b'>' {
                        empty = true;
                        j += 2;
                        break;
                    }
                    return Err("stray / in tag".into());
                }
                let k = s[j..].find('=').ok_or("attribute without =")? + j;
                let an = s[j..k].trim().to_string();
                let q = k + 1;
                if q >= b.len() || (b[q] != b'"' && b[q] != b'\'') {
                    return Err("unquoted attribute".into());
                }
                let quote = b[q] as char;
                let e = s[q + 1..].find(quote).ok_or("unterminated attribute value")? + q + 1;
                // attribute-value normalisation: literal TAB, LF, CR (CRLF) become a space;
                // characters that come from references are kept
                let raw = s[q + 1..e].replace("\r\n", " ").replace(['\t', '\n', '\r'], " ");
                attrs.push((an, unescape(&raw)?));
                j = e + 1;
            }
            out.push(Ev::Start { name, attrs, empty });
            i = j;
        }
    }
    flush(&mut text, &mut out);
    Ok(out)
}

/// An element as resolved independently from the text: expanded name,
/// declarations written on it, attributes with expanded names (in order).
#[derive(Clone, Debug, PartialEq, Eq)]
pub struct ResolvedElem {
    pub local: String,
    pub uri: String,
    pub decls: Vec<(String, String)>,
    pub attrs: Vec<(String, String, String)>,
}

fn split_q(q: &str) -> (&str, &str) {
    match q.find(':') {
        Some(i) => (&q[..i], &q[i + 1..]),
        None => ("", q),
    }
}

/// Resolve every start tag of the text against the declarations in the text
/// (Namespaces in XML 1.0): returns elements in document order, or an error
/// for an unbound prefix.
pub fn resolve(evs: &[Ev]) -> Result<Vec<ResolvedElem>, String> {
    let mut stack: Vec<Vec<(String, String)>> = vec![vec![(
        "xml".to_string(),
        "http://www.w3.org/XML/1998/namespace".to_string(),
    )]];
    let mut out = vec![];
    let lookup = |stack: &Vec<Vec<(String, String)>>, p: &str| -> Option<String> {
        for frame in stack.iter().rev() {
            for (fp, fu) in frame.iter().rev() {
                if fp == p {
                    return Some(fu.clone());
                }
            }
        }
        None
    };
    for ev in evs {
        match ev {
            Ev::Start { name, attrs, empty } => {
                let mut frame = vec![];
                let mut decls = vec![];
                for (an, av) in attrs {
                    if an == "xmlns" {
                        frame.push(("".to_string(), av.clone()));
                        decls.push(("".to_string(), av.clone()));
                    } else if let Some(p) = an.strip_prefix("xmlns:") {
                        frame.push((p.to_string(), av.clone()));
                        decls.push((p.to_string(), av.clone()));
                    }
                }
                stack.push(frame);
                let (p, l) = split_q(name);
                let uri = if p.is_empty() {
                    lookup(&stack, "").unwrap_or_default()
                } else {
                    lookup(&stack, p).ok_or_else(|| format!("unbound prefix {} on element {}", p, name))?
                };
                if !p.is_empty() && uri.is_empty() {
                    return Err(format!("prefix {} bound to the empty namespace", p));
                }
                let mut rattrs = vec![];
                for (an, av) in attrs {
                    if an == "xmlns" || an.starts_with("xmlns:") {
                        continue;
                    }
                    let (ap, al) = split_q(an);
                    let auri = if ap.is_empty() {
                        String::new()
                    } else {
                        lookup(&stack, ap).ok_or_else(|| format!("unbound prefix {} on attribute {}", ap, an))?
                    };
                    rattrs.push((al.to_string(), auri, av.clone()));
                }
                out.push(ResolvedElem { local: l.to_string(), uri, decls, attrs: rattrs });
                if *empty {
                    stack.pop();
                }
            }
            Ev::End { .. } => {
                stack.pop();
            }
            _ => {}
        }
    }
    Ok(out)
}
