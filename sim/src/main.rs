mod absdoc;
mod driver;
mod engine;
mod forest;
mod gen;
mod hashseam;
mod known;
mod model;
mod ops;
mod props;
mod rng;
mod stats;
mod world;
mod xmlscan;

use driver::*;
use known::KnownFile;
use stats::Stats;

fn arg<'a>(args: &'a [String], name: &str) -> Option<&'a str> {
    args.iter().position(|a| a == name).and_then(|i| args.get(i + 1)).map(|s| s.as_str())
}

fn usage() -> ! {
    eprintln!("usage: xotsim run --property Cxx --tier quick|thorough [--seed N] [--jobs J] [--runs R] [--no-evidence]\n       xotsim replay <file.json>\n       xotsim selftest-determinism [--seeds K]\n       xotsim probe-known");
    std::process::exit(2);
}

fn main() {
    let args: Vec<String> = std::env::args().collect();
    if args.len() < 2 {
        usage();
    }
    hashseam::install();
    install_quiet_panic_hook();
    match args[1].as_str() {
        "run" => cmd_run(&args),
        "replay" => cmd_replay(&args),
        "selftest-determinism" => cmd_selftest(&args),
        "probe-known" => {
            let known = KnownFile::load();
            for id in props::CLAIMED {
                let e = props::engine_for(id).unwrap();
                probe_known(e.as_ref(), &known);
            }
        }
        _ => usage(),
    }
}

fn seed_from(args: &[String]) -> u64 {
    if let Some(s) = arg(args, "--seed") {
        return s.parse::<i64>().map(|x| x as u64).unwrap_or_else(|_| usage());
    }
    if let Ok(s) = std::env::var("VERIF_SEED") {
        if let Ok(x) = s.trim().parse::<i64>() {
            return x as u64;
        }
        if let Ok(x) = s.trim().parse::<u64>() {
            return x;
        }
    }
    20261002
}

fn cmd_run(args: &[String]) {
    let id = arg(args, "--property").unwrap_or_else(|| usage());
    let tier = arg(args, "--tier")
        .map(|s| s.to_string())
        .or_else(|| std::env::var("VERIF_TIER").ok())
        .unwrap_or_else(|| "quick".to_string());
    let thorough = tier == "thorough";
    let tier = if thorough { "thorough" } else { "quick" };
    let engine = match props::engine_for(id) {
        Some(e) => e,
        None => {
            eprintln!("harness error: unknown property {}", id);
            std::process::exit(2);
        }
    };
    let seed = seed_from(args);
    let jobs: usize = arg(args, "--jobs")
        .and_then(|s| s.parse().ok())
        .unwrap_or_else(|| std::thread::available_parallelism().map(|n| n.get()).unwrap_or(4));
    let runs: u64 = arg(args, "--runs").and_then(|s| s.parse().ok()).unwrap_or_else(|| engine.default_runs(thorough));
    println!("xotsim: property={} tier={} seed={} runs={} jobs={}", id, tier, seed, runs, jobs);
    let known = KnownFile::load();
    let known_lines = probe_known(engine.as_ref(), &known);
    let res = run_batch(engine.as_ref(), seed, runs, jobs, &known, thorough);
    let mut violations = 0;
    let mut exit = 0;
    let mut res = res;
    if let Some((idx, f)) = res.failure.take() {
        violations = 1;
        let where_ = if idx >= u64::MAX - 1 { "in the fixed (non-seeded) part".to_string() } else { format!("at run {}", idx) };
        eprintln!("violation found {}: {}:{} {}", where_, f.violation.property, f.violation.class, f.violation.msg);
        let min = engine.minimise(f, &known);
        let path = write_replay_file(engine.as_ref(), seed, idx, &min);
        // replay in a fresh process: must fail the same way
        let exe = std::env::current_exe().unwrap();
        let out = std::process::Command::new(exe).arg("replay").arg(&path).output();
        match out {
            Ok(o) if o.status.code() == Some(1) => {
                println!("violation {}:{} {}", min.violation.property, min.violation.class, min.violation.msg);
                println!("VIOLATION property={} replay={}", id, path);
                exit = 1;
            }
            Ok(o) => {
                eprintln!(
                    "harness error: replay of {} in a fresh process did not reproduce (exit {:?}): {}",
                    path,
                    o.status.code(),
                    String::from_utf8_lossy(&o.stdout)
                );
                exit = 2;
            }
            Err(e) => {
                eprintln!("harness error: cannot spawn replay: {}", e);
                exit = 2;
            }
        }
    }
    if !args.iter().any(|a| a == "--no-evidence") {
        write_evidence(engine.as_ref(), tier, seed, &res, violations, &known_lines);
    }
    println!(
        "xotsim: property={} runs={} steps={} states={} cells={} nontrivial={} wall={:.1}s fingerprint={:016x} exit={}",
        id,
        res.stats.runs,
        res.stats.steps,
        res.stats.set_len("states"),
        res.stats.set_len("cells"),
        res.stats.set_len(engine.nontrivial_key()),
        res.wall_s,
        res.stats.digest,
        exit
    );
    std::process::exit(exit);
}

fn cmd_replay(args: &[String]) {
    let path = args.get(2).unwrap_or_else(|| usage());
    let text = std::fs::read_to_string(path).unwrap_or_else(|e| {
        eprintln!("harness error: cannot read {}: {}", path, e);
        std::process::exit(2)
    });
    let v: serde_json::Value = serde_json::from_str(&text).unwrap_or_else(|e| {
        eprintln!("harness error: cannot parse {}: {}", path, e);
        std::process::exit(2)
    });
    let id = v["property"].as_str().unwrap_or("");
    let engine = props::engine_for(id).unwrap_or_else(|| {
        eprintln!("harness error: unknown property in replay file");
        std::process::exit(2)
    });
    let known = KnownFile::load();
    let mut st = Stats::default();
    if v["mode"].as_str() == Some("seeded") {
        let seed = v["seed"].as_u64().unwrap_or(0);
        let idx = v["run_index"].as_u64().unwrap_or(0);
        let run_seed = rng::mix(seed, prop_salt(id), idx);
        match engine.run_one(idx, run_seed, &known, &mut st) {
            Some(f) => {
                println!("violation {}:{} {}", f.violation.property, f.violation.class, f.violation.msg);
                println!("VIOLATION property={} replay={}", id, path);
                std::process::exit(1);
            }
            None => {
                println!("replay: no violation");
                std::process::exit(0);
            }
        }
    }
    let expect_class = v["expect"]["class"].as_str().unwrap_or("");
    match engine.replay(&v["replay"], &known, &mut st) {
        Some(viol) => {
            println!("violation {}:{} {}", viol.property, viol.class, viol.msg);
            if !expect_class.is_empty() && viol.class != expect_class {
                println!("note: expected class {}", expect_class);
            }
            println!("VIOLATION property={} replay={}", id, path);
            std::process::exit(1);
        }
        None => {
            println!("replay: no violation");
            std::process::exit(0);
        }
    }
}

fn cmd_selftest(args: &[String]) {
    // run every claimed property's batch twice with different worker counts
    // and compare fingerprints (each worker count in this process; the check
    // wrapper additionally compares across processes)
    let seeds: u64 = arg(args, "--seeds").and_then(|s| s.parse().ok()).unwrap_or(2000);
    let seed = seed_from(args);
    let known = KnownFile::load();
    let only = arg(args, "--property");
    let mut bad = false;
    for id in props::CLAIMED {
        if let Some(o) = only {
            if o != id {
                continue;
            }
        }
        let e = props::engine_for(id).unwrap();
        let a = run_batch(e.as_ref(), seed, seeds, 1, &known, false);
        let b = run_batch(e.as_ref(), seed, seeds, 16, &known, false);
        let ok = a.stats.digest == b.stats.digest && a.failure.is_none() == b.failure.is_none();
        println!(
            "selftest {} runs={} fingerprint(j=1)={:016x} fingerprint(j=16)={:016x} {}",
            id,
            seeds,
            a.stats.digest,
            b.stats.digest,
            if ok { "same" } else { "DIFFERENT" }
        );
        if !ok {
            bad = true;
        }
    }
    std::process::exit(if bad { 2 } else { 0 });
}
