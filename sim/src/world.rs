//! The world of one simulation run: the real `Xot` store, the reference model,
//! and the binding between logical node ids and real handles. All observation
//! of the real store goes through the public accessors, bounded.

use crate::model::{Kind, Lid, MNode, Model, Nm, Pred, K};
use crate::ops::{Op, Outcome};
use std::collections::{BTreeMap, BTreeSet, HashMap};
use crate::driver::real_call;
use xot::{Node, NodeEdge, Value, ValueType, Xot};

#[derive(Clone, Debug, PartialEq, Eq)]
pub struct Violation {
    pub property: &'static str,
    pub class: &'static str,
    pub msg: String,
}
impl Violation {
    pub fn new(property: &'static str, class: &'static str, msg: String) -> Self {
        Violation { property, class, msg }
    }
}

pub const NODE_LIMIT: usize = 4000;

#[derive(Clone)]
pub struct World {
    pub xot: Xot,
    pub model: Model,
    /// logical id -> real handle (kept for ever, also for dead nodes: stale handles)
    pub handles: BTreeMap<Lid, Node>,
    /// real handle -> logical id (lookups only, never iterated)
    pub rev: HashMap<Node, Lid>,
    /// xml:id values seen at parse time: (document lid, value)
    pub xml_ids: Vec<(Lid, String)>,
    pub reuse_seen: u64,
    /// (source node, root of its clone) for every successful clone call
    pub clone_pairs: Vec<(Lid, Lid)>,
}

/// A tree as read back from the real store through public accessors.
#[derive(Clone, Debug)]
pub struct RNode {
    pub node: Node,
    pub kind: Kind,
    pub ns: Vec<RNode>,
    pub attrs: Vec<RNode>,
    pub kids: Vec<RNode>,
}

pub fn nm_of(x: &Xot, id: xot::NameId) -> Nm {
    let (l, u) = x.name_ns_str(id);
    Nm { local: l.to_string(), uri: u.to_string() }
}

pub fn kind_of(x: &Xot, n: Node) -> Kind {
    match x.value(n) {
        Value::Document => Kind::Doc,
        Value::Element(e) => Kind::Elem(nm_of(x, e.name())),
        Value::Text(t) => Kind::Text(t.get().to_string()),
        Value::Comment(c) => Kind::Comment(c.get().to_string()),
        Value::ProcessingInstruction(p) => Kind::PI(nm_of(x, p.target()), p.data().map(|s| s.to_string())),
        Value::Attribute(a) => Kind::Attr(nm_of(x, a.name()), a.value().to_string()),
        Value::Namespace(n) => {
            Kind::Ns(x.prefix_str(n.prefix()).to_string(), x.namespace_str(n.namespace()).to_string())
        }
    }
}

pub fn stamp_of(n: Node) -> i64 {
    // Node's Debug prints `Node(NodeId { index1: N, stamp: NodeStamp(S) })`
    let s = format!("{:?}", n);
    if let Some(i) = s.find("NodeStamp(") {
        let rest = &s[i + 10..];
        let end = rest.find(')').unwrap_or(rest.len());
        return rest[..end].trim().parse::<i64>().unwrap_or(0);
    }
    0
}

fn c04(class: &'static str, msg: String) -> Violation {
    Violation::new("C04", class, msg)
}

/// Read one tree back, checking the C04 structural invariants on the way.
/// `budget` bounds the number of nodes (cycle detection).
thread_local! {
    static SOFT: std::cell::RefCell<Vec<Violation>> = std::cell::RefCell::new(Vec::new());
}
/// disagreements of the convenience accessors noticed by `read_tree_soft` since the last call:
/// they say something about an accessor, not about the tree, so the walk goes on and the
/// simulation step is not abandoned because of them
pub fn push_soft(v: Violation) {
    SOFT.with(|s| {
        if s.borrow().len() < 4 {
            s.borrow_mut().push(v);
        }
    });
}
pub fn take_soft() -> Vec<Violation> {
    SOFT.with(|s| std::mem::take(&mut *s.borrow_mut()))
}

pub fn read_tree(x: &Xot, root: Node, check_adjacent: bool, budget: &mut usize) -> Result<RNode, Violation> {
    read_tree_mode(x, root, check_adjacent, budget, false)
}
pub fn read_tree_soft(x: &Xot, root: Node, check_adjacent: bool, budget: &mut usize) -> Result<RNode, Violation> {
    read_tree_mode(x, root, check_adjacent, budget, true)
}
fn read_tree_mode(x: &Xot, root: Node, check_adjacent: bool, budget: &mut usize, soft: bool) -> Result<RNode, Violation> {
    if x.is_removed(root) {
        return Err(c04("removed-node-handed-out", format!("root {:?} is removed", root)));
    }
    if let Some(p) = x.parent(root) {
        return Err(c04("relations", format!("root {:?} has parent {:?}", root, p)));
    }
    if x.next_sibling(root).is_some() || x.previous_sibling(root).is_some() {
        return Err(c04("orphan-siblings", format!("parentless node {:?} has a sibling", root)));
    }
    // bounded ancestor walk
    if x.ancestors(root).take(3).count() != 1 {
        return Err(c04("relations", format!("ancestors of parentless {:?} is not just itself", root)));
    }
    let r = read_node(x, root, true, check_adjacent, budget, soft)?;
    // all_descendants must be the preorder of what we read
    let mut flat = vec![];
    flatten(&r, &mut flat);
    let desc: Vec<Node> = x.all_descendants(root).take(flat.len() + 2).collect();
    if desc != flat {
        return Err(c04(
            "category-order",
            format!("all_descendants of {:?} disagrees with namespaces/attributes/children walk", root),
        ));
    }
    Ok(r)
}

pub fn flatten(r: &RNode, out: &mut Vec<Node>) {
    out.push(r.node);
    for c in r.ns.iter().chain(r.attrs.iter()).chain(r.kids.iter()) {
        flatten(c, out);
    }
}

fn read_node(x: &Xot, n: Node, is_root: bool, check_adjacent: bool, budget: &mut usize, soft: bool) -> Result<RNode, Violation> {
    if *budget == 0 {
        return Err(c04("cycle", format!("more than {} nodes reachable: cycle at {:?}", NODE_LIMIT, n)));
    }
    *budget -= 1;
    if x.is_removed(n) {
        return Err(c04("removed-node-handed-out", format!("accessor returned removed node {:?}", n)));
    }
    let kind = kind_of(x, n);
    let vt = x.value_type(n);
    if vt == ValueType::Document && !is_root {
        return Err(c04("kind-placement", format!("document node {:?} is not a root", n)));
    }
    let lim = *budget + 2;
    let ns_nodes: Vec<Node> = x.namespaces(n).nodes().take(lim).collect();
    let attr_nodes: Vec<Node> = x.attributes(n).nodes().take(lim).collect();
    let kid_nodes: Vec<Node> = x.children(n).take(lim).collect();
    // direct children of every category, in arena order, from all_traverse
    let mut all_direct = vec![];
    let mut depth = 0usize;
    let mut steps = 0usize;
    for e in x.all_traverse(n) {
        steps += 1;
        if steps > 2 * NODE_LIMIT + 4 {
            return Err(c04("cycle", format!("all_traverse of {:?} does not end", n)));
        }
        match e {
            NodeEdge::Start(c) => {
                if depth == 1 {
                    all_direct.push(c);
                }
                depth += 1;
            }
            NodeEdge::End(_) => {
                depth -= 1;
                if depth == 0 {
                    break;
                }
            }
        }
    }
    let mut expect = ns_nodes.clone();
    expect.extend(attr_nodes.iter().copied());
    expect.extend(kid_nodes.iter().copied());
    if expect != all_direct {
        return Err(c04(
            "category-order",
            format!(
                "under {:?} ({:?}): namespaces+attributes+children = {} nodes, all_traverse gives {} direct children in another order/content",
                n,
                vt,
                expect.len(),
                all_direct.len()
            ),
        ));
    }
    if !matches!(vt, ValueType::Element | ValueType::Document) && !all_direct.is_empty() {
        return Err(c04("kind-placement", format!("{:?} node {:?} has children", vt, n)));
    }
    if vt != ValueType::Element && (!ns_nodes.is_empty() || !attr_nodes.is_empty()) {
        return Err(c04("kind-placement", format!("non-element {:?} has attribute/namespace nodes", n)));
    }
    // kinds per category
    for c in &ns_nodes {
        if x.value_type(*c) != ValueType::Namespace {
            return Err(c04("category-order", format!("namespaces() of {:?} lists a {:?}", n, x.value_type(*c))));
        }
    }
    for c in &attr_nodes {
        if x.value_type(*c) != ValueType::Attribute {
            return Err(c04("category-order", format!("attributes() of {:?} lists a {:?}", n, x.value_type(*c))));
        }
    }
    for c in &kid_nodes {
        match x.value_type(*c) {
            ValueType::Attribute | ValueType::Namespace => {
                return Err(c04(
                    "category-order",
                    format!("children() of {:?} lists a {:?}", n, x.value_type(*c)),
                ));
            }
            ValueType::Document => {
                return Err(c04("kind-placement", format!("document node {:?} is a child of {:?}", c, n)));
            }
            _ => {}
        }
    }
    // relations from both ends
    for c in &all_direct {
        if x.parent(*c) != Some(n) {
            return Err(c04("relations", format!("child {:?} of {:?} has parent {:?}", c, n, x.parent(*c))));
        }
    }
    if x.first_child(n) != kid_nodes.first().copied() || x.last_child(n) != kid_nodes.last().copied() {
        return Err(c04("relations", format!("first_child/last_child of {:?} disagree with children()", n)));
    }
    for list in [&ns_nodes, &attr_nodes, &kid_nodes] {
        for (i, c) in list.iter().enumerate() {
            let pv = if i > 0 { Some(list[i - 1]) } else { None };
            let nx = list.get(i + 1).copied();
            if x.previous_sibling(*c) != pv || x.next_sibling(*c) != nx {
                return Err(c04(
                    "relations",
                    format!("sibling links of {:?} under {:?} disagree with the child list", c, n),
                ));
            }
        }
    }
    if let Err(v) = accessor_agreement(x, n, vt, &attr_nodes, &ns_nodes, &kid_nodes) {
        if !soft {
            return Err(v);
        }
        SOFT.with(|s| {
            if s.borrow().len() < 4 {
                s.borrow_mut().push(v);
            }
        });
    }
    // (reverse_children is deliberately not used: with indextree 4.7.2 `children().rev()` never
    // ends for >= 2 children; traversal axes belong to C07, which is not claimed — DESIGN §7 O2)
    // recurse
    let mut ns = vec![];
    for c in &ns_nodes {
        ns.push(read_node(x, *c, false, check_adjacent, budget, soft)?);
    }
    let mut attrs = vec![];
    for c in &attr_nodes {
        attrs.push(read_node(x, *c, false, check_adjacent, budget, soft)?);
    }
    let mut kids = vec![];
    for c in &kid_nodes {
        kids.push(read_node(x, *c, false, check_adjacent, budget, soft)?);
    }
    // uniqueness
    for i in 0..attrs.len() {
        for j in 0..i {
            if let (Kind::Attr(a, _), Kind::Attr(b, _)) = (&attrs[i].kind, &attrs[j].kind) {
                if a == b {
                    return Err(c04("duplicate-key", format!("attribute {:?} twice on {:?}", a, n)));
                }
            }
        }
    }
    for i in 0..ns.len() {
        for j in 0..i {
            if let (Kind::Ns(a, _), Kind::Ns(b, _)) = (&ns[i].kind, &ns[j].kind) {
                if a == b {
                    return Err(c04("duplicate-key", format!("prefix {:?} declared twice on {:?}", a, n)));
                }
            }
        }
    }
    if check_adjacent {
        for w in kids.windows(2) {
            if w[0].kind.is_text() && w[1].kind.is_text() {
                return Err(c04(
                    "adjacent-text",
                    format!(
                        "adjacent text nodes {:?}|{:?} under {:?} although consolidation was never off",
                        w[0].kind, w[1].kind, n
                    ),
                ));
            }
        }
    }
    Ok(RNode { node: n, kind, ns, attrs, kids })
}

/// "A node handle denotes the same node with the same value" / "no accessor hands out a removed
/// node": the convenience accessors must agree with `value()`, `parent()` and the child lists
/// that the walk above is built on.
fn accessor_agreement(x: &Xot, n: Node, vt: ValueType, attr_nodes: &[Node], ns_nodes: &[Node], kid_nodes: &[Node]) -> Result<(), Violation> {
    let bad = |what: &str| Err(c04("accessor-disagrees", format!("{} of {:?} ({:?}) disagrees with value()/parent()/children()", what, n, vt)));
    // typed views of the value
    let flags = [
        (x.is_document(n), ValueType::Document),
        (x.is_element(n), ValueType::Element),
        (x.is_text(n), ValueType::Text),
        (x.is_comment(n), ValueType::Comment),
        (x.is_processing_instruction(n), ValueType::ProcessingInstruction),
        (x.is_attribute_node(n), ValueType::Attribute),
        (x.is_namespace_node(n), ValueType::Namespace),
    ];
    for (f, t) in flags {
        if f != (t == vt) {
            return bad("an is_* predicate");
        }
    }
    let ok = match x.value(n) {
        Value::Document => x.element(n).is_none() && x.text(n).is_none(),
        Value::Element(e) => x.element(n).map(|v| v.name()) == Some(e.name()) && x.get_element_name(n) == e.name() && x.text_str(n).is_none(),
        Value::Text(t) => x.text_str(n) == Some(t.get()) && x.text(n).map(|v| v.get()) == Some(t.get()) && x.element(n).is_none() && x.comment_str(n).is_none(),
        Value::Comment(c) => x.comment_str(n) == Some(c.get()) && x.comment(n).map(|v| v.get()) == Some(c.get()) && x.text_str(n).is_none(),
        Value::ProcessingInstruction(pi) => {
            x.processing_instruction(n).map(|v| (v.target(), v.data().map(|d| d.to_string()))) == Some((pi.target(), pi.data().map(|d| d.to_string()))) && x.text_str(n).is_none()
        }
        Value::Attribute(a) => x.attribute_node(n).map(|v| (v.name(), v.value().to_string())) == Some((a.name(), a.value().to_string())) && x.namespace_node(n).is_none(),
        Value::Namespace(ns) => x.namespace_node(n).map(|v| (v.prefix(), v.namespace())) == Some((ns.prefix(), ns.namespace())) && x.attribute_node(n).is_none(),
    };
    if !ok {
        return bad("a typed value accessor");
    }
    // position helpers
    let parent = x.parent(n);
    let parent_is_doc = parent.map_or(false, |p| x.value_type(p) == ValueType::Document);
    if x.has_document_parent(n) != parent_is_doc || x.is_document_element(n) != (parent_is_doc && vt == ValueType::Element) {
        return bad("has_document_parent / is_document_element");
    }
    let lim = attr_nodes.len() + 2;
    if x.attribute_nodes(n).take(lim).collect::<Vec<_>>() != attr_nodes {
        return bad("attribute_nodes");
    }
    for (i, c) in kid_nodes.iter().enumerate() {
        if x.child_index(n, *c) != Some(i) {
            return bad("child_index of a child");
        }
    }
    for c in attr_nodes.iter().chain(ns_nodes.iter()) {
        if x.child_index(n, *c).is_some() {
            return bad("child_index of an attribute / namespace node");
        }
    }
    if vt == ValueType::Element {
        for c in attr_nodes {
            if let Value::Attribute(a) = x.value(*c) {
                if x.get_attribute(n, a.name()) != Some(a.value()) || x.attributes(n).get_node(a.name()) != Some(*c) {
                    return bad("get_attribute / attributes().get_node");
                }
            }
        }
        for c in ns_nodes {
            if let Value::Namespace(d) = x.value(*c) {
                if x.get_namespace(n, d.prefix()) != Some(d.namespace()) || x.namespaces(n).get_node(d.prefix()) != Some(*c) {
                    return bad("get_namespace / namespaces().get_node");
                }
            }
        }
        let decls = x.namespace_declarations(n);
        let want: Vec<_> = ns_nodes.iter().filter_map(|c| if let Value::Namespace(d) = x.value(*c) { Some((d.prefix(), d.namespace())) } else { None }).collect();
        if decls != want {
            return bad("namespace_declarations");
        }
    }
    if vt == ValueType::Document {
        let first_elem = kid_nodes.iter().copied().find(|c| x.value_type(*c) == ValueType::Element);
        match (x.document_element(n), first_elem) {
            (Ok(a), Some(b)) if a == b => {}
            (Err(_), None) => {}
            _ => return bad("document_element"),
        }
    } else if x.document_element(n).is_ok() {
        return bad("document_element (of a non-document)");
    }
    // root / top_element: bounded walks over the parent chain
    let chain: Vec<Node> = x.ancestors(n).take(NODE_LIMIT + 1).collect();
    if chain.len() <= NODE_LIMIT {
        if x.root(n) != *chain.last().unwrap() {
            return bad("root");
        }
        if vt != ValueType::Document {
            let top = chain.iter().copied().filter(|a| x.value_type(*a) == ValueType::Element).last().unwrap_or(n);
            if x.top_element(n) != top {
                return bad("top_element");
            }
        }
    }
    Ok(())
}

#[derive(Clone, Copy, PartialEq, Eq, Debug)]
pub enum MisKind {
    Structure,
    Value,
    Liveness,
    Foreign,
}

#[derive(Clone, Debug)]
pub struct Mismatch {
    pub kind: MisKind,
    pub msg: String,
}

impl World {
    pub fn new() -> Self {
        World {
            xot: Xot::new(),
            model: Model::new(),
            handles: BTreeMap::new(),
            rev: HashMap::new(),
            xml_ids: vec![],
            reuse_seen: 0,
            clone_pairs: vec![],
        }
    }
    pub fn h(&self, l: Lid) -> Node {
        *self.handles.get(&l).unwrap_or_else(|| panic!("harness: no handle for {:?}", l))
    }
    pub fn bind(&mut self, l: Lid, n: Node) {
        if stamp_of(n) > 0 {
            self.reuse_seen += 1;
        }
        self.handles.insert(l, n);
        self.rev.insert(n, l);
    }

    /// Execute the real call under catch_unwind.
    pub fn exec_real(&mut self, op: &Op) -> Outcome {
        let handles = &self.handles;
        let xot = &mut self.xot;
        let r = real_call(|| {
            let h = |l: Lid| -> Node { *handles.get(&l).unwrap_or_else(|| panic!("harness: no handle for {:?}", l)) };
            op.apply_real(xot, &h)
        });
        match r {
            Ok(Ok(n)) => Outcome::Ok(n),
            Ok(Err(e)) => Outcome::Err(e),
            Err(p) => {
                let s = if let Some(s) = p.downcast_ref::<&str>() {
                    s.to_string()
                } else if let Some(s) = p.downcast_ref::<String>() {
                    s.clone()
                } else {
                    "panic".to_string()
                };
                Outcome::Panic(s)
            }
        }
    }

    /// Read back every tree the model knows as a root (through its handle).
    /// Returns C04 violations found by the structural checker.
    pub fn read_forest(&self, roots: &[Node]) -> Result<Vec<RNode>, Violation> {
        let mut budget = NODE_LIMIT;
        let mut out = vec![];
        let check_adj = !self.model.cons_ever_off;
        for r in roots {
            out.push(read_tree_soft(&self.xot, *r, check_adj, &mut budget)?);
        }
        Ok(out)
    }

    /// Compare the real forest with the model, binding unknown real nodes to
    /// the model's fresh logical ids by position. Everything must match:
    /// structure, values, liveness of every handle.
    pub fn compare_with_model(&mut self, ret: Option<Node>, pred_ret: Option<Lid>) -> Result<(), Violation> {
        // bind a predicted returned node that is new
        if let (Some(n), Some(l)) = (ret, pred_ret) {
            match self.handles.get(&l) {
                None => {
                    if let Some(other) = self.rev.get(&n) {
                        return Err(Violation::new(
                            "C05",
                            "model-mismatch-structure",
                            format!("call returned existing node {:?} where a new node {:?} was predicted", other, l),
                        ));
                    }
                    self.bind(l, n);
                }
                Some(h) => {
                    if *h != n {
                        return Err(Violation::new(
                            "C05",
                            "model-mismatch-structure",
                            format!(
                                "call returned {:?} ({:?}) but the model predicts {:?}",
                                n,
                                self.rev.get(&n),
                                l
                            ),
                        ));
                    }
                }
            }
        }
        let roots: Vec<Lid> = self.model.roots.iter().copied().collect();
        let mut budget = NODE_LIMIT;
        let check_adj = !self.model.cons_ever_off;
        let mut seen_real: usize = 0;
        for rl in &roots {
            let rn = match self.handles.get(rl) {
                Some(n) => *n,
                None => {
                    // a root the model created but the real call never handed out
                    // (e.g. node left behind by a refused convenience call): skip
                    continue;
                }
            };
            if self.xot.is_removed(rn) {
                return Err(Violation::new(
                    "C05",
                    "model-mismatch-liveness",
                    format!("model root {:?} is live but its handle is removed", rl),
                ));
            }
            if self.xot.parent(rn).is_some() {
                return Err(Violation::new(
                    "C05",
                    "model-mismatch-structure",
                    format!("model says {:?} is parentless, real has parent {:?}", rl, self.xot.parent(rn).and_then(|p| self.rev.get(&p))),
                ));
            }
            let rt = read_tree_soft(&self.xot, rn, check_adj, &mut budget)?;
            self.cmp_rec(*rl, &rt, &mut seen_real)?;
        }
        // liveness of every handle ever handed out
        self.check_liveness()?;
        Ok(())
    }

    pub fn check_liveness(&self) -> Result<(), Violation> {
        for (l, h) in &self.handles {
            let live = self.model.nodes.get(l).map(|n| n.live).unwrap_or(false);
            let removed = self.xot.is_removed(*h);
            if live && removed {
                return Err(Violation::new(
                    "C05",
                    "model-mismatch-liveness",
                    format!("node {:?} should be live but is_removed is true", l),
                ));
            }
            if !live && !removed {
                return Err(Violation::new(
                    "C04",
                    "resurrected-handle",
                    format!(
                        "node {:?} was removed but is_removed({:?}) is false (stamp {})",
                        l,
                        h,
                        stamp_of(*h)
                    ),
                ));
            }
        }
        Ok(())
    }

    fn cmp_rec(&mut self, l: Lid, r: &RNode, seen: &mut usize) -> Result<(), Violation> {
        *seen += 1;
        match self.handles.get(&l) {
            Some(h) => {
                if *h != r.node {
                    return Err(Violation::new(
                        "C05",
                        "model-mismatch-structure",
                        format!(
                            "at the place of model node {:?} the real tree has {:?} ({:?})",
                            l,
                            self.rev.get(&r.node),
                            r.kind
                        ),
                    ));
                }
            }
            None => {
                if let Some(other) = self.rev.get(&r.node) {
                    return Err(Violation::new(
                        "C05",
                        "model-mismatch-structure",
                        format!("model expects a new node {:?} where the real tree has existing {:?}", l, other),
                    ));
                }
                self.bind(l, r.node);
            }
        }
        let m: MNode = self.model.n(l).clone();
        if m.kind != r.kind {
            return Err(Violation::new(
                "C05",
                "model-mismatch-value",
                format!("node {:?}: model {:?}, real {:?}", l, m.kind, r.kind),
            ));
        }
        for (ml, rl, what) in [(&m.ns, &r.ns, "namespaces"), (&m.attrs, &r.attrs, "attributes"), (&m.kids, &r.kids, "children")] {
            if ml.len() != rl.len() {
                return Err(Violation::new(
                    "C05",
                    "model-mismatch-structure",
                    format!(
                        "node {:?}: {} differ: model {:?}, real {:?}",
                        l,
                        what,
                        ml.iter().map(|x| (x, self.model.n(*x).kind.clone())).collect::<Vec<_>>(),
                        rl.iter().map(|x| (self.rev.get(&x.node), x.kind.clone())).collect::<Vec<_>>()
                    ),
                ));
            }
            for (a, b) in ml.iter().zip(rl.iter()) {
                self.cmp_rec(*a, b, seen)?;
            }
        }
        Ok(())
    }

    /// Rebuild the model from the real store (after an operation the model does
    /// not predict, or that the model refuses but the store accepted). New real
    /// nodes get fresh logical ids of the current operation. `extra_roots` are
    /// handles returned by the call.
    pub fn adopt(&mut self, extra_roots: &[Node]) -> Result<(), Violation> {
        // candidate roots: every known handle that is not removed, walked up (bounded)
        let mut root_nodes: Vec<Node> = vec![];
        let mut seen_root: BTreeSet<Lid> = BTreeSet::new();
        let mut cand: Vec<Node> = self
            .handles
            .iter()
            .filter(|(l, _)| self.model.nodes.get(*l).map(|n| n.live).unwrap_or(false))
            .map(|(_, h)| *h)
            .collect();
        cand.extend(extra_roots.iter().copied());
        let mut new_root_nodes: Vec<Node> = vec![];
        for h in cand {
            if self.xot.is_removed(h) {
                continue;
            }
            let mut cur = h;
            let mut guard = 0;
            while let Some(p) = self.xot.parent(cur) {
                cur = p;
                guard += 1;
                if guard > NODE_LIMIT {
                    return Err(c04("cycle", format!("parent chain of {:?} does not end", h)));
                }
            }
            match self.rev.get(&cur) {
                Some(l) => {
                    if seen_root.insert(*l) {
                        root_nodes.push(cur);
                    }
                }
                None => {
                    if !new_root_nodes.contains(&cur) {
                        new_root_nodes.push(cur);
                    }
                }
            }
        }
        // deterministic order: known roots by lid, then new roots in discovery order
        root_nodes.sort_by_key(|n| self.rev[n]);
        root_nodes.extend(new_root_nodes);
        let trees = self.read_forest(&root_nodes)?;
        let mut nm = Model::new();
        nm.cons = self.model.cons;
        nm.cons_ever_off = self.model.cons_ever_off;
        // keep dead records
        let old = std::mem::replace(&mut self.model, nm);
        let mut live_now: BTreeSet<Lid> = BTreeSet::new();
        let mut fresh_model = old.clone();
        for t in &trees {
            self.adopt_rec(t, None, &mut fresh_model, &mut live_now);
        }
        // anything live before but not reached now must be removed in the real store
        for (l, n) in old.nodes.iter() {
            if n.live && !live_now.contains(l) {
                let mn = fresh_model.nodes.get_mut(l).unwrap();
                mn.live = false;
            }
        }
        fresh_model.roots = trees.iter().map(|t| self.rev[&t.node]).collect();
        self.model = fresh_model;
        // dead handles must say removed, live must not
        for (l, h) in &self.handles {
            let live = self.model.nodes.get(l).map(|n| n.live).unwrap_or(false);
            if !live && !self.xot.is_removed(*h) {
                // either genuinely unreachable-but-alive (not possible: we walk every live handle up)
                return Err(c04(
                    "resurrected-handle",
                    format!("node {:?} is gone from every tree but is_removed({:?}) is false", l, h),
                ));
            }
        }
        Ok(())
    }

    fn adopt_rec(&mut self, t: &RNode, parent: Option<Lid>, m: &mut Model, live_now: &mut BTreeSet<Lid>) -> Lid {
        let l = match self.rev.get(&t.node) {
            Some(l) => *l,
            None => {
                let l = m.fresh();
                self.bind(l, t.node);
                l
            }
        };
        live_now.insert(l);
        let ns: Vec<Lid> = t.ns.iter().map(|c| self.adopt_rec(c, Some(l), m, live_now)).collect();
        let attrs: Vec<Lid> = t.attrs.iter().map(|c| self.adopt_rec(c, Some(l), m, live_now)).collect();
        let kids: Vec<Lid> = t.kids.iter().map(|c| self.adopt_rec(c, Some(l), m, live_now)).collect();
        m.nodes.insert(l, MNode { kind: t.kind.clone(), parent, ns, attrs, kids, live: true });
        l
    }

    /// to_string of every root (Ok text or Err text), for before/after comparison
    pub fn serialise_roots(&self) -> Vec<(Lid, String)> {
        let mut out = vec![];
        for rl in &self.model.roots {
            if let Some(h) = self.handles.get(rl) {
                let r = real_call(|| self.xot.to_string(*h));
                let s = match r {
                    Ok(Ok(s)) => format!("ok:{}", s),
                    Ok(Err(e)) => format!("err:{:?}", e),
                    Err(_) => "panic".to_string(),
                };
                out.push((*rl, s));
            }
        }
        out
    }

    /// Verify the real store equals the (unchanged) model: used after a refusal.
    pub fn unchanged_vs_model(&mut self) -> Result<(), Violation> {
        self.compare_with_model(None, None)
    }
}

/// Does the real tree under the handle of `root` in `w` equal the subtree of
/// `root` in `model` (same nodes at the same places, same values)? No binding.
pub fn real_tree_matches_model(w: &World, model: &Model, root: Lid) -> Result<(), String> {
    let h = match w.handles.get(&root) {
        Some(h) => *h,
        None => return Err(format!("no handle for {:?}", root)),
    };
    if w.xot.is_removed(h) {
        return Err(format!("{:?} is removed", root));
    }
    if w.xot.parent(h).is_some() != model.n(root).parent.is_some() {
        return Err(format!("{:?} changed its attachment", root));
    }
    let mut budget = NODE_LIMIT;
    // read the subtree: temporarily treat h as root only if it is one
    let t = if w.xot.parent(h).is_none() {
        read_tree_soft(&w.xot, h, false, &mut budget).map_err(|v| v.msg)?
    } else {
        read_node(&w.xot, h, false, false, &mut budget, true).map_err(|v| v.msg)?
    };
    fn rec(w: &World, model: &Model, l: Lid, r: &RNode) -> Result<(), String> {
        if w.handles.get(&l) != Some(&r.node) {
            return Err(format!("another node stands at the place of {:?}", l));
        }
        let m = model.n(l);
        if m.kind != r.kind {
            return Err(format!("{:?}: was {:?}, now {:?}", l, m.kind, r.kind));
        }
        for (ml, rl) in [(&m.ns, &r.ns), (&m.attrs, &r.attrs), (&m.kids, &r.kids)] {
            if ml.len() != rl.len() {
                return Err(format!("{:?}: child lists differ", l));
            }
            for (a, b) in ml.iter().zip(rl.iter()) {
                rec(w, model, *a, b)?;
            }
        }
        Ok(())
    }
    rec(w, model, root, &t)
}

/// canonical text of a read-back tree, in the format of `Model::canon`
pub fn canon_r(r: &RNode) -> String {
    let mut s = String::new();
    canon_r_into(r, &mut s);
    s
}
fn canon_r_into(r: &RNode, s: &mut String) {
    match &r.kind {
        Kind::Doc => s.push_str("D("),
        Kind::Elem(nm) => {
            s.push_str("E{");
            s.push_str(&nm.uri);
            s.push('}');
            s.push_str(&nm.local);
            s.push('(');
        }
        Kind::Text(t) => {
            s.push_str(&format!("T{:?}", t));
            return;
        }
        Kind::Comment(t) => {
            s.push_str(&format!("C{:?}", t));
            return;
        }
        Kind::PI(t, d) => {
            s.push_str(&format!("P{{{}}}{}:{:?}", t.uri, t.local, d));
            return;
        }
        Kind::Attr(nm, v) => {
            s.push_str(&format!("@{{{}}}{}={:?}", nm.uri, nm.local, v));
            return;
        }
        Kind::Ns(p, u) => {
            s.push_str(&format!("#{}={:?}", p, u));
            return;
        }
    }
    for c in r.ns.iter().chain(r.attrs.iter()).chain(r.kids.iter()) {
        canon_r_into(c, s);
        s.push(',');
    }
    s.push(')');
}

/// one-line rendering of a model subtree for messages
pub fn brief(m: &Model, l: Lid) -> String {
    let mut s = m.canon(l);
    if s.len() > 160 {
        s.truncate(160);
        s.push('…');
    }
    s
}

pub fn kinds_summary(m: &Model) -> BTreeMap<K, usize> {
    let mut out = BTreeMap::new();
    for n in m.nodes.values() {
        if n.live {
            *out.entry(n.kind.k()).or_insert(0) += 1;
        }
    }
    out
}

#[allow(dead_code)]
pub fn pred_name(p: &Pred) -> &'static str {
    match p {
        Pred::Refuse => "refuse",
        Pred::Done(_) => "done",
        Pred::Unknown => "unknown",
    }
}
