//! The one PRNG of the simulator. Everything random in a run is drawn from a
//! `Rng` that was seeded from (VERIF_SEED, property, run index). Never call it
//! from logging paths.

#[inline]
pub fn splitmix(x: &mut u64) -> u64 {
    *x = x.wrapping_add(0x9E37_79B9_7F4A_7C15);
    let mut z = *x;
    z = (z ^ (z >> 30)).wrapping_mul(0xBF58_476D_1CE4_E5B9);
    z = (z ^ (z >> 27)).wrapping_mul(0x94D0_49BB_1331_11EB);
    z ^ (z >> 31)
}

pub fn mix(a: u64, b: u64, c: u64) -> u64 {
    let mut s = a ^ 0xD6E8_FEB8_6659_FD93;
    let x = splitmix(&mut s);
    let mut s2 = x ^ b.wrapping_mul(0xA24B_AED4_963E_E407);
    let y = splitmix(&mut s2);
    let mut s3 = y ^ c.wrapping_mul(0x9FB2_1C65_1E98_DF25);
    splitmix(&mut s3)
}

#[derive(Clone, Debug)]
pub struct Rng {
    s: [u64; 4],
}

impl Rng {
    pub fn new(seed: u64) -> Self {
        let mut x = seed;
        let s = [
            splitmix(&mut x),
            splitmix(&mut x),
            splitmix(&mut x),
            splitmix(&mut x),
        ];
        Rng { s }
    }
    #[inline]
    pub fn next(&mut self) -> u64 {
        let result = self.s[1].wrapping_mul(5).rotate_left(7).wrapping_mul(9);
        let t = self.s[1] << 17;
        self.s[2] ^= self.s[0];
        self.s[3] ^= self.s[1];
        self.s[1] ^= self.s[2];
        self.s[0] ^= self.s[3];
        self.s[2] ^= t;
        self.s[3] = self.s[3].rotate_left(45);
        result
    }
    /// uniform in 0..n (n > 0)
    #[inline]
    pub fn below(&mut self, n: usize) -> usize {
        debug_assert!(n > 0);
        ((self.next() >> 11) % (n as u64)) as usize
    }
    #[inline]
    pub fn range(&mut self, lo: usize, hi_incl: usize) -> usize {
        lo + self.below(hi_incl - lo + 1)
    }
    /// true with probability pct/100
    #[inline]
    pub fn pct(&mut self, pct: u32) -> bool {
        (self.next() >> 11) % 100 < pct as u64
    }
    /// true with probability num/den
    #[inline]
    pub fn ratio(&mut self, num: u64, den: u64) -> bool {
        (self.next() >> 11) % den < num
    }
    pub fn pick<'a, T>(&mut self, v: &'a [T]) -> &'a T {
        &v[self.below(v.len())]
    }
    pub fn pick_str(&mut self, v: &[&'static str]) -> &'static str {
        v[self.below(v.len())]
    }
    pub fn pick_opt<'a, T>(&mut self, v: &'a [T]) -> Option<&'a T> {
        if v.is_empty() {
            None
        } else {
            Some(&v[self.below(v.len())])
        }
    }
    /// weighted index
    pub fn weighted(&mut self, w: &[u32]) -> usize {
        let total: u64 = w.iter().map(|x| *x as u64).sum();
        debug_assert!(total > 0);
        let mut r = (self.next() >> 11) % total;
        for (i, x) in w.iter().enumerate() {
            if r < *x as u64 {
                return i;
            }
            r -= *x as u64;
        }
        w.len() - 1
    }
    pub fn fork(&mut self) -> Rng {
        Rng::new(self.next())
    }
}

/// FNV-1a, used for event-log digests and canonical state hashes.
#[derive(Clone, Copy)]
pub struct Fnv(pub u64);
impl Fnv {
    pub fn new() -> Self {
        Fnv(0xcbf2_9ce4_8422_2325)
    }
    #[inline]
    pub fn bytes(&mut self, b: &[u8]) {
        for x in b {
            self.0 ^= *x as u64;
            self.0 = self.0.wrapping_mul(0x0000_0100_0000_01B3);
        }
    }
    #[inline]
    pub fn u64(&mut self, x: u64) {
        self.bytes(&x.to_le_bytes());
    }
    pub fn str(&mut self, s: &str) {
        self.bytes(s.as_bytes());
        self.bytes(&[0xff]);
    }
}
