#!/usr/bin/env python3
# Regenerates /verif/MANIFEST.json. Edit CLAIMED / NA here, not the JSON.
import json
NA = {
 "C01":"pure function tree -> text -> tree of its input; no schedule, fault, seed or history in it (DESIGN §5); its Write seam under faults is covered by C16",
 "C02":"pure function text/bytes -> tree over lexical spellings; input generation only (DESIGN §5)",
 "C07":"every axis/traversal is a pure function of a static tree (DESIGN §5)",
 "C09":"scope queries are pure functions of a static tree (DESIGN §5)",
 "C13":"deep_equal and friends are pure relations on pairs of static trees (DESIGN §5)",
 "C14":"pure function tree x serialisation parameters -> text (DESIGN §5)",
 "C15":"deduplicate_namespaces depends only on its argument tree; idempotence is f(f(x))=f(x), not a history (DESIGN §5)",
 "C17":"spans are a pure function of the source text (DESIGN §5)",
 "C18":"remove_insignificant_whitespace depends only on its argument tree; idempotence as for C15 (DESIGN §5)",
 "C19":"HTML5 text is a pure function of tree x parameters and the property observes the string entry points, where the sink cannot fail (DESIGN §5)",
}
TB="Trusted: the reference model in sim/src/model.rs (written from the documentation and the property text), the bounded read-back through public accessors, the small independent scanner/resolver sim/src/xmlscan.rs, rustc/cargo; xot itself, indextree, xmlparser etc. run as real code rebuilt from /repo's working tree through the shadow manifest (only change: ahash built with no-rng so that hash seeds come from the simulator)."
CLAIMED = {
 "C03":("fault_enumeration","Fault injection on documents at rest in a store shared with other clients: every document of a seeded corpus is damaged by every fault of a catalogue (truncation, bit flip, lost/duplicated/zeroed block, bad encoding label, and edits that are ill-formed by construction) at every applicable position and parsed with every entry point into a store in which other trees live; totality, accepted => sound, ill-formed-by-construction => rejected, failed parse leaves the rest of the store intact.","deterministic simulation with fault injection: fault catalogue enumerated over every position of stored documents, parsed into a shared store","DESIGN §4.10"),
 "C04":("exploration","Seeded search over multi-client call histories on one shared Xot (refused calls, failed parses, stale handles after slot reuse, consolidation flips as injected faults); after every call the whole forest is read back and all C04 invariants plus liveness of every handle ever issued are checked. Sampling, not proof: right level because the property quantifies over all histories.","deterministic simulation with fault injection: seeded multi-client histories + invariant checking after every step","DESIGN §4.1"),
 "C05":("exploration","Same histories judged call by call against an executable ordered-forest reference model (refinement): full read-back must equal the model after every successful call; plus enumeration of all (operation,node,node) triples at sampled states.","deterministic simulation: operation-by-operation refinement against a reference model, branch enumeration at sampled states","DESIGN §4.2"),
 "C06":("fault_enumeration","Every refused call is an injected fault: executed on a clone under catch_unwind, state before = state after (read-back, serialisation of every root, liveness of every handle); at sampled states all operations x all argument tuples of live nodes are enumerated.","deterministic simulation with fault injection: refused calls as faults, snapshot-before/after comparison, fault enumeration at sampled states","DESIGN §4.3"),
 "C08":("exploration","Seeded registration histories (direct, through parses incl. failing ones, html5(), store forks) against a map model incl. one run shape past the former 16-bit id width; injectivity, lookups and stability of every earlier id checked after every step.","deterministic simulation: interleaved registration histories vs. map model, store forks and failed parses as faults","DESIGN §4.4"),
 "C10":("exploration","Seeded histories alternating 'add / move / clone nodes away from their declarations' with create_missing_prefixes under simulator-controlled hash seeds; every serialisation is resolved by an independent namespace resolver and by reparsing and must give the model's expanded names or be an error; after a repair serialisation must succeed and nothing may have changed.","deterministic simulation: repair histories under controlled hash seeds, independent resolution of emitted names","DESIGN §4.5"),
 "C11":("exploration","Seeded interleavings of map-style and node-style attribute/namespace updates; after every step all accessors of the read-only and of the mutable view of every element are compared with each other and with an ordered-map model (same node at the same position), and the serialisation order with the model's order.","deterministic simulation: interleaved update histories vs. ordered-map model, both views after every step","DESIGN §4.6"),
 "C12":("exploration","clone_node / clone_with_prefixes at random steps followed by mutation histories on either side with the other side held invariant; Xot::clone as store fork: every call runs on the store and on a clone of it under the same hash-seed stream and must give identical results while a third clone stays unchanged.","deterministic simulation: snapshot/fork as fault, independence of both sides under later histories","DESIGN §4.7"),
 "C16":("fault_enumeration","Write-sink seam: every write call of a serialisation is answered by every fault kind (short write, Interrupted, Ok(0), hard error) — enumerated completely for small documents, seeded schedules for larger ones — and compared with the string route; token and event streams are pulled lazily, dropped early and re-pulled; parameters drawn per observation.","deterministic simulation with fault injection: simulated Write sink with enumerated fault points, lazily pulled streams with early drop","DESIGN §4.8"),
 "C20":("exploration","The order of construction calls is the schedule: seeded linear extensions of the build plan with a seeded choice of attachment method must all converge on the tree that parsing and fixed::xotify produce.","deterministic simulation: seeded schedules (linear extensions) of construction programs, three-route agreement","DESIGN §4.9"),
}
import os
have=set(l.strip() for l in os.popen("cd /verif/sim && grep -o '\"C[0-9][0-9]\" =>' src/props/mod.rs | cut -c2-4").read().split())
checks=[]
for pid,(cat,text,tech,ref) in sorted(CLAIMED.items()):
    if pid not in have: continue
    checks.append({
      "property_id": pid,
      "quick_cmd": f"./check {pid} quick",
      "thorough_cmd": f"./check {pid} thorough",
      "evidence_file": f"/verif/evidence/{pid}.json",
      "replay_cmd_template": "./check --replay {path}",
      "engine": "xotsim",
      "level_claimed": {"category": cat, "text": text, "design_ref": ref},
      "level_note": TB,
      "technique": tech,
    })
m={
 "version":1,
 "setup_cmd":"cd /verif/sim && CARGO_NET_OFFLINE=true cargo build --release --offline",
 "hooks":{"guard":"xot_verif","enable":"none needed: the simulator builds /repo/src through the shadow manifest /verif/sim/shadow/Cargo.toml (package `xot`, lib path /repo/src/lib.rs, ahash with no-rng) and uses only public seams (impl Write, byte slices, Xot: Clone, ahash::random_state::set_random_source)","baseline_off_cmd":"cd /repo && cargo test --workspace --no-fail-fast --offline","source_commits":[],"add_only":True},
 "engines":[{"name":"xotsim","path":"/verif/sim","serves_properties":[c["property_id"] for c in checks],"kind_free_text":"deterministic simulator: seeded scheduler over logical clients of one shared Xot, reference model, fault injection (refused calls, failed parses, stale handles, sink faults, damaged documents, store forks, hash seeds), minimisation and exact replay"}],
 "checks":checks,
 "notes":"See DESIGN.md. Known findings and fixed defects: known_findings.json (one open finding, KF1 for C04: handle aliasing after 32 768 reuses of one arena slot - the C04 check prints a KNOWN-FINDING line for it and exits 0). Fix commits in /repo start with 'fix:'. Seeded breaking changes and which check catches them: seeded/*/meta.json.",
 "not_applicable":[{"property_id":k,"reason":v} for k,v in NA.items()],
}
json.dump(m,open('/verif/MANIFEST.json','w'),indent=1)
print("checks:",[c["property_id"] for c in checks])
