#!/usr/bin/env python3
# rerun_seeds.py <property>... : re-run the seeded changes of the given properties (tools/try_seed.sh) and
# replace their lines in seeded/RESULTS.txt; the other lines stay as the last full regression wrote them
import subprocess,re,sys
props=set(sys.argv[1:])
res=open('/verif/seeded/RESULTS.txt','rb').read().decode('utf-8','replace').splitlines()
out=[]
for line in res:
    name,prop=line.split()[:2]
    if prop not in props:
        out.append(line); continue
    r=subprocess.run(['/verif/tools/try_seed.sh',f'/verif/seeded/{name}',prop],capture_output=True)
    so=r.stdout.decode('utf-8','replace')
    m=re.search(r'-> %s: exit=(\d) ?(.*)'%prop,so)
    out.append(f"{name} {prop} exit={m.group(1) if m else '?'} {(m.group(2)[:200] if m else so[-200:])}")
    print(out[-1][:140],flush=True)
    open('/verif/seeded/RESULTS.txt','w').write("\n".join(out+res[len(out):])+"\n")
