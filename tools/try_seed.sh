#!/bin/bash
# try_seed.sh <seed-dir> <prop> [<prop>...]: apply the seeded change to /repo, run the quick checks, undo
D="$1"; shift
trap "" PIPE
trap 'git -C /repo reset -q --hard' EXIT
cd /repo && git diff --quiet || { echo "/repo not clean"; exit 2; }
git -C /repo apply "$D/patch.diff" 2>/dev/null || git -C /repo apply --3way "$D/patch.diff" || { echo "patch does not apply"; git -C /repo reset -q --hard; exit 2; }
for P in "$@"; do
  OUT=$(cd /verif && ./check $P quick 2>&1); RC=$?
  echo "$(basename $D) -> $P: exit=$RC $(echo "$OUT" | grep -E '^violation|^VIOLATION|harness' | head -2 | cut -c1-260)"
done
git -C /repo checkout -- . ; git -C /repo reset -q
