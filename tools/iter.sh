#!/bin/bash
# dev helper: rebuild, run one property, print replay
P=$1; shift
cd /verif/sim && cargo build --release 2>&1 | grep -E "^error" -A 12
rm -rf /tmp/vr; mkdir -p /tmp/vr; cp /verif/known_findings.json /tmp/vr/ 2>/dev/null
VERIF_ROOT=/tmp/vr ./target/release/xotsim run --property $P --tier quick --jobs 16 "$@" 2>&1 | grep -v "^note:" | tail -6
python3 - <<'PY'
import json,glob
for f in glob.glob('/tmp/vr/replays/*.json'):
  v=json.load(open(f))
  print(v['class'], v['message'])
  for o in v.get('replay',{}).get('ops',[]): print(' ', json.dumps(o))
PY
