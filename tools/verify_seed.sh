#!/bin/bash
# verify_seed.sh <seed-dir>: confirm a seeded change in a scratch worktree of /repo HEAD:
#  (1) applies, (2) full suite passes with it, (3) demo fails with it, (4) demo passes without it
D="$1"; NAME=$(basename "$D")
WT=${WT:-/tmp/wt-verify}
[ -d $WT ] || git -C /repo worktree add -q --detach $WT HEAD
cd $WT && git reset -q --hard && git checkout -q --detach $(git -C /repo rev-parse HEAD) && git clean -fdq -e target
if ! git apply --check "$D/patch.diff" 2>/dev/null; then
  if git apply --3way "$D/patch.diff" 2>/dev/null; then echo "$NAME: applied with 3way"; else git reset -q --hard; echo "$NAME: PATCH DOES NOT APPLY"; exit 1; fi
else git apply "$D/patch.diff"; fi
export CARGO_NET_OFFLINE=true
SUITE=$(cargo test --workspace --no-fail-fast --offline 2>&1 | grep -E "^test result" | awk '{p+=$4; f+=$6} END {print "passed=" p " failed=" f}')
cp "$D/demo.rs" tests/zz_demo.rs
WITH=$(cargo test --offline --test zz_demo 2>&1 | grep -E "^test result" | head -1)
git checkout -q -- src 2>/dev/null; git diff --quiet -- src || git checkout -- src
WITHOUT=$(cargo test --offline --test zz_demo 2>&1 | grep -E "^test result|error" | head -1)
rm -f tests/zz_demo.rs
echo "$NAME: suite-with-change[$SUITE] demo-with-change[$WITH] demo-without[$WITHOUT]"
