#!/bin/bash
# Reach measured as source coverage of /repo/src under the simulator's workloads.
# Builds a copy of the simulator with -C instrument-coverage (nightly toolchain, llvm-tools) outside
# /verif, runs a reduced batch of every check, and prints llvm-cov's per-file table for xot's sources
# plus the uncovered lines of the files the claimed properties are anchored in.
# Usage: tools/coverage.sh [runs-per-forest-check]   (default 2000; /repo must be clean)
set -e
R=${1:-2000}
W=/tmp/xotsim-cov
B=$(dirname $(rustc +nightly --print target-libdir))/bin
[ -x $B/llvm-cov ] || { echo "llvm-tools not found under $B"; exit 2; }
rm -rf $W; mkdir -p $W/vr $W/prof
cp -r /verif/sim/Cargo.toml /verif/sim/Cargo.lock /verif/sim/.cargo /verif/sim/shadow /verif/sim/src $W/
cp /verif/known_findings.json $W/vr/
cd $W
CARGO_NET_OFFLINE=true RUSTFLAGS="-C instrument-coverage" cargo +nightly build --release --offline 2>&1 | tail -1
for P in C03 C04 C05 C06 C08 C10 C11 C12 C16 C20; do
  N=$R; [ $P = C03 ] && N=$((R/10)); [ $P = C20 ] && N=$((R*10))
  LLVM_PROFILE_FILE="$W/prof/$P-%p.profraw" VERIF_ROOT=$W/vr ./target/release/xotsim run --property $P --tier quick --jobs 8 --runs $N --no-evidence 2>&1 | grep "exit=" | cut -c1-110
done
$B/llvm-profdata merge -sparse prof/*.profraw -o all.profdata
$B/llvm-cov report ./target/release/xotsim -instr-profile=all.profdata --sources /repo/src 2>/dev/null | python3 -c "
import sys
for l in sys.stdin:
    f=l.split()
    if len(f)>=10 and (f[0].endswith('.rs') or f[0]=='TOTAL'):
        print('%-30s lines %5s missed %5s  cover %s' % (f[0], f[7], f[8], f[9]))
"
echo
for f in manipulation.rs nodemap/core.rs nodemap/entry.rs nodemap/attribute.rs nodemap/namespace.rs creation.rs parse.rs encoding.rs entity.rs output/fullname.rs output/xml_serializer.rs output/serializer.rs output/pretty.rs id/idmap.rs fixed.rs; do
  echo "== uncovered lines of $f"
  $B/llvm-cov show ./target/release/xotsim -instr-profile=all.profdata --sources /repo/src/$f 2>/dev/null | grep -E "^ +[0-9]+\| +0\|" | cut -c1-140
done
cd /; rm -rf $W
