#!/bin/bash
# For every "fixed:" entry of known_findings.json: re-introduce the defect by applying the
# reverse of the fix commit to /repo's working tree, run the quick check of the entry's property,
# and restore /repo. A check that does not fail on such a mutant is not sensitive to the defect.
cd /repo && git diff --quiet || { echo "/repo not clean"; exit 2; }
OUT=/verif/mutants/RESULTS.txt; : > $OUT
python3 - <<'PY' > /tmp/fixed_list.txt
import json,re
k=json.load(open('/verif/known_findings.json'))
for l in k['fixed']:
    m=re.match(r'fixed: property=(C\d+) ([0-9a-f]+) (.*)',l)
    print(m.group(1),m.group(2),m.group(3)[:90].replace(' ','_'))
PY
while read P SHA WHAT; do
  PATCH=/verif/mutants/revert-$SHA.patch
  git -C /repo diff $SHA $SHA^ -- src > $PATCH
  if git -C /repo apply --check $PATCH 2>/dev/null; then git -C /repo apply $PATCH; HOW=clean
  elif git -C /repo apply --3way $PATCH 2>/dev/null && ! git -C /repo diff --name-only --diff-filter=U | grep -q .; then HOW=3way
  else git -C /repo checkout -q -- . ; git -C /repo reset -q --hard; echo "$P $SHA SKIPPED(reverse patch conflicts with later fixes) $WHAT" >> $OUT; continue; fi
  RES=$(cd /verif && ./check $P quick 2>&1); RC=$?
  V=$(echo "$RES" | grep -E '^violation ' | head -1 | cut -c1-160)
  echo "$P $SHA apply=$HOW exit=$RC $V" >> $OUT
  git -C /repo checkout -q -- . ; git -C /repo reset -q --hard
done < /tmp/fixed_list.txt
# hand-written re-introductions for the fixes whose reverse patch no longer applies (tools/mk_manual_mutants.py)
for PATCH in /verif/mutants/manual-*.patch; do
  N=$(basename $PATCH .patch); SHA=$(echo $N | cut -d- -f2)
  P=$(grep " $SHA " /tmp/fixed_list.txt | head -1 | cut -d' ' -f1)
  [ -z "$P" ] && P=$(grep -h "^C.. $N " /verif/mutants/RESULTS.prev 2>/dev/null | cut -d' ' -f1)
  if ! git -C /repo apply "$PATCH" 2>/dev/null; then echo "$P $N DOES-NOT-APPLY" >> $OUT; git -C /repo reset -q --hard; continue; fi
  RES=$(cd /verif && ./check $P quick 2>&1); RC=$?
  V=$(echo "$RES" | grep -E '^violation ' | head -1 | cut -c1-160)
  echo "$P $N exit=$RC $V" >> $OUT
  git -C /repo checkout -q -- . ; git -C /repo reset -q --hard
done
cat $OUT
