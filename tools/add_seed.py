#!/usr/bin/env python3
# add_seed.py <staging-dir> <property> <detected-how> : copy a confirmed seeded change into /verif/seeded with meta.json
import os,sys,json,shutil,subprocess
src,prop,how=sys.argv[1],sys.argv[2],sys.argv[3]
name=os.path.basename(src.rstrip('/'))
head=subprocess.check_output(['git','-C','/repo','rev-parse','--short','HEAD']).decode().strip()
dst='/verif/seeded/'+name
os.makedirs(dst,exist_ok=True)
for f in ['patch.diff','demo.rs','notes.md']:
    shutil.copy(os.path.join(src,f),os.path.join(dst,f))
meta={"id":name,"property":prop,
  "origin":"independent sub-agent given only the property text and a scratch worktree",
  "needs_to_manifest":"see notes.md (written by the sub-agent)",
  "confirmed_by_me":{"repo_head":head,"how":"tools/verify_seed.sh in a scratch worktree of /repo HEAD: patch applies; cargo test --workspace --offline: 483 passed, 0 failed with the change; demo.rs (as tests/zz_demo.rs) fails with the change and passes without it"},
  "ran":["tools/verify_seed.sh /tmp/staging/%s"%name,"tools/try_seed.sh /tmp/staging/%s %s   (git -C /repo apply patch.diff; ./check %s quick; git -C /repo checkout -- .)"%(name,prop,prop)],
  "detected":{"check":prop,"tier":"quick","exit":1 if not how.startswith('MISSED') else 0,"how":how}}
json.dump(meta,open(os.path.join(dst,'meta.json'),'w'),indent=1)
print("added",name)
