#!/bin/bash
# Regression over all seeded changes: apply each to /repo, run the quick check of its property, undo.
# Writes /verif/seeded/RESULTS.txt and updates detected.how / detected.exit in each meta.json.
cd /repo && git diff --quiet || { echo "/repo not clean"; exit 2; }
OUT=/verif/seeded/RESULTS.txt; : > $OUT
trap 'git -C /repo reset -q --hard' EXIT
for D in /verif/seeded/*/; do
  N=$(basename $D); P=$(python3 -c "import json;print(json.load(open('$D/meta.json'))['property'])")
  if ! git -C /repo apply "$D/patch.diff" 2>/dev/null; then echo "$N $P PATCH-DOES-NOT-APPLY" >> $OUT; git -C /repo reset -q --hard; continue; fi
  RES=$(cd /verif && ./check $P quick 2>&1); RC=$?
  V=$(echo "$RES" | grep -E '^violation found' | head -1 | cut -c1-200)
  echo "$N $P exit=$RC $V" >> $OUT
  python3 - "$D/meta.json" "$RC" "$V" <<'PY'
import json,sys
p,rc,v=sys.argv[1],int(sys.argv[2]),sys.argv[3]
m=json.load(open(p)); m['detected']['exit']=rc; m['detected']['last_regression_run']=v; json.dump(m,open(p,'w'),indent=1)
PY
  git -C /repo reset -q --hard
done
grep -c "exit=1" $OUT; grep -v "exit=1" $OUT
