#!/usr/bin/env python3
# rerun_named.py <seed-name>... : re-run the named seeded changes (tools/try_seed.sh, with the property in
# their meta.json) and replace / append their lines in seeded/RESULTS.txt; the other lines stay
import subprocess,re,sys,json
names=sys.argv[1:]
res=open('/verif/seeded/RESULTS.txt','rb').read().decode('utf-8','replace').splitlines()
idx={l.split()[0]:i for i,l in enumerate(res)}
for name in names:
    prop=json.load(open(f'/verif/seeded/{name}/meta.json'))['property']
    r=subprocess.run(['/verif/tools/try_seed.sh',f'/verif/seeded/{name}',prop],capture_output=True)
    so=r.stdout.decode('utf-8','replace')
    m=re.search(r'-> %s: exit=(\d) ?(.*)'%prop,so)
    line=f"{name} {prop} exit={m.group(1) if m else '?'} {(m.group(2)[:200] if m else so[-200:])}"
    if name in idx: res[idx[name]]=line
    else: res.append(line)
    print(line[:150],flush=True)
    open('/verif/seeded/RESULTS.txt','w').write("\n".join(sorted(res))+"\n")
