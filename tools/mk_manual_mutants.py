#!/usr/bin/env python3
# Hand-written re-introductions of repaired defects whose fix commits can no longer be reverted
# mechanically (later fixes touch the same lines). Writes /verif/mutants/manual-<sha>-<what>.patch against
# /repo HEAD, using the scratch worktree /tmp/wt-verify; tools/revert_mutants.sh runs them.
import subprocess,os,re,sys
WT='/tmp/wt-verify'
def sh(c): return subprocess.run(c,shell=True,capture_output=True,text=True)
def reset():
    sh(f"cd {WT} && git reset -q --hard && git checkout -q --detach $(git -C /repo rev-parse HEAD)")
def edit(path,old,new,count=1):
    p=os.path.join(WT,path); s=open(p).read()
    assert s.count(old)>=1,(path,old[:40])
    s=s.replace(old,new) if count==0 else s.replace(old,new,count)
    open(p,'w').write(s)
M={}
def m1():
    edit('src/manipulation.rs',"""        if self.value(reference_node).value_category() != ValueCategory::Normal {
            return Err(Error::InvalidOperation(
                "Cannot insert a sibling next to an attribute or namespace node".into(),
            ));
        }
""","")
M['manual-763a61e-attr-reference-accepted']=('C04',m1)
def m2():
    edit('src/manipulation.rs',"""        // validate the replacing node before the replaced node is destroyed
        self.add_structure_check(Some(parent), replacing_node)?;
        if self
            .ancestors(replacing_node)
            .any(|ancestor| ancestor == replaced_node)
        {
            return Err(Error::InvalidOperation(
                "Cannot replace a node with itself or with one of its descendants".to_string(),
            ));
        }
""","")
M['manual-b030483-replace-validates-late']=('C06',m2)
def m3():
    edit('src/manipulation.rs',"""            if previous_node != replacing_node {
                self.insert_after(previous_node, replacing_node)?;
            }""","""            self.insert_after(previous_node, replacing_node)?;""")
M['manual-7367f74-replace-by-previous-sibling']=('C06',m3)
def m4():
    edit('src/nameaccess.rs',"""            let prefix_id = loop {
                let prefix = format!("n{}", i);
                i += 1;
                let prefix_id = self.add_prefix(&prefix);
                if !used_prefix_ids.contains(&prefix_id) {
                    break prefix_id;
                }
            };""","""            let prefix = format!("n{}", i);
            i += 1;
            let prefix_id = self.add_prefix(&prefix);
            let _ = &used_prefix_ids;""")
M['manual-1b2b00f-generated-prefix-reused']=('C10',m4)
def m5():
    for old in ["""        // nothing to do if the child is the last child already
        if self.last_child(parent) == Some(child) {
            return Ok(());
        }
""","""        // nothing to do if the child is the first child already
        if self.first_child(parent) == Some(child) {
            return Ok(());
        }
""","""        // nothing to do if the node follows the reference node already
        if self.next_sibling(reference_node) == Some(new_sibling) {
            return Ok(());
        }
""","""        // nothing to do if the node precedes the reference node already
        if self.previous_sibling(reference_node) == Some(new_sibling) {
            return Ok(());
        }
"""]:
        edit('src/manipulation.rs',old,"")
M['manual-ede9d0d-noop-moves-not-noops']=('C05',m5)
def m6():
    edit('src/parse.rs',"""        if namespaces.iter().any(|(p, _)| *p == prefix_id) {""","""        if false && namespaces.iter().any(|(p, _)| *p == prefix_id) {""")
M['manual-fc60571-prefix-declared-twice']=('C03',m6)
def m7():
    edit('src/parse.rs',"""        if content.is_empty() {
            return Ok(None);
        }
""","")
M['manual-217b632-empty-cdata']=('C03',m7)
def m8():
    edit('src/parse.rs',"""        if !prefix.is_empty() && namespace_uri.is_empty() {
            return Err(ParseError::UnknownPrefix(prefix.to_string(), span));
        }
""","")
M['manual-b20e476-empty-namespace-name-for-prefix']=('C03',m8)
def m9():
    edit('src/parse.rs',"""        } else {
            // a close tag without an open element
            return Err(ParseError::InvalidCloseTag(
                prefix.to_string(),
                name.to_string(),
                Span::from_prefix_name(prefix, name),
            ));
        }
""","        }\n")
M['manual-de30fe0-stray-close-tag-panics']=('C03',m9)
def m10():
    edit('src/parse.rs',"""                            let uri = parse_attribute(value.as_str().into(), value.start())?;""","""                            let uri = value.as_str();""",0)
    edit('src/parse.rs',"&uri,","uri,",0)
M['manual-ffa33e9-namespace-declaration-value-not-decoded']=('C03',m10)
def m11():
    edit('src/output/xml_serializer.rs',"""                if *namespace_id == self.xot.xml_namespace()
                    && *prefix_id == self.xot.xml_prefix()
                    && !self
                        .fullname_serializer
                        .is_prefix_rebound_outside(*prefix_id, *namespace_id)
                {""","""                if *namespace_id == self.xot.xml_namespace() {""")
M['manual-ce9bdaf-every-xml-namespace-declaration-dropped']=('C10',m11)
def m12():
    edit('src/parse.rs',"""            if attribute_spans.iter().any(|(n, _, _)| *n == name_id) {""","""            if false && attribute_spans.iter().any(|(n, _, _)| *n == name_id) {""")
M['manual-0462827-duplicate-attributes-by-expanded-name']=('C03',m12)
os.makedirs('/verif/mutants',exist_ok=True)
if not os.path.isdir(WT): sh(f"git -C /repo worktree add -q --detach {WT} HEAD")
for name,(prop,fn) in M.items():
    if len(sys.argv)>1 and sys.argv[1] not in name: continue
    reset(); fn()
    d=sh(f"cd {WT} && git diff -- src").stdout
    open(f'/verif/mutants/{name}.patch','w').write(d)
    r=sh(f"cd {WT} && CARGO_NET_OFFLINE=true cargo test --workspace --no-fail-fast --offline 2>&1 | grep -E '^test result' | awk '{{p+=$4; f+=$6}} END {{print p, f}}'").stdout.strip()
    print(name,prop,'suite passed/failed:',r)
reset()
