#!/usr/bin/env python3
# Regenerates the table of DESIGN.md §9 from seeded/RESULTS.txt, seeded/*/meta.json and the
# 'needs' texts kept in seeded/NEEDS.json
import re,json,glob
res={}
for l in open('/verif/seeded/RESULTS.txt'):
    m=re.match(r'(\S+) (C\d\d) exit=(\d) violation found at run (\d+): (C\d\d:[A-Za-z-]+)',l)
    if m: res[m.group(1)]=(m.group(2),m.group(4),m.group(5))
needs=json.load(open('/verif/seeded/NEEDS.json'))
notes={}
for mp in glob.glob('/verif/seeded/*/meta.json'):
    m=json.load(open(mp)); notes[m['id']]=m['detected']['how']
    if m['id'] in res:
        m['detected']['exit']=1; m['detected']['last_regression_run']="run %s: %s"%(res[m['id']][1],res[m['id']][2]); json.dump(m,open(mp,'w'),indent=1)
rows=[]
missed=0
for n in sorted(notes):
    if n not in res:
        rows.append(f"| {n} | {needs.get(n,'see notes.md')} | **not caught in the last regression run** |"); continue
    p,run,cls=res[n]
    how=notes[n]
    extra=''
    if 'MISSED' in how or 'missed' in how.lower():
        missed+=1
        txt=how.split(':',1)[1].strip() if how.upper().startswith('MISSED') and ':' in how else how
        txt=re.sub(r'^run \d+( of \d+)?: C\d\d:[a-z-]+ ','',txt)
        extra=' — **missed at first**: '+txt
    rows.append(f"| {n} | {needs.get(n,'see notes.md')} | {p} run {run} `{cls.split(':')[1]}`{extra} |")
table="| seeded change | needs | caught by (quick tier, current tree) |\n|---|---|---|\n"+"\n".join(rows)+"\n"
d=open('/verif/DESIGN.md').read()
a=d.index("| seeded change | needs | caught by (quick tier, current tree) |")
b=d.index("\n\n",a)
d=d[:a]+table+d[b+1:]
open('/verif/DESIGN.md','w').write(d)
print(len(rows),"rows;",missed,"missed at first")
