#!/bin/bash
# Run the repository's own test suite (guard off: there are no source hooks) and print a summary.
cd /repo || exit 2
CARGO_NET_OFFLINE=true cargo test --workspace --no-fail-fast --offline 2>&1 | grep -E "^test result|FAILED|failed|panicked" | awk '/^test result/ {p+=$4; f+=$6} {print} END {print "TOTAL passed=" p " failed=" f}'
